package raft

// Replay of finding D2 (property C20: "its identity, once set, cannot be changed"):
// obligation SetIdentity#ensures:C20.identity-immutable, path
// "cid == val.v1 ... val.v1 != 0; val.v2 != 0" -- the deferred `err = unlockDir(...)`
// overwrites ErrIdentityAlreadySet, so the caller is told the identity was set.

import (
	"fmt"
	"io/ioutil"
	"os"
	"testing"
)

func TestVerifReplayD2(t *testing.T) {
	dir, err := ioutil.TempDir("", "d2")
	if err != nil {
		t.Fatal(err)
	}
	defer os.RemoveAll(dir)
	if err := SetIdentity(dir, 1, 2); err != nil {
		t.Fatal(err)
	}
	err = SetIdentity(dir, 3, 4) // a different identity on a directory that already has one
	fmt.Println("second SetIdentity(3,4) on a directory holding (1,2) returned:", err)
	if err == nil {
		fmt.Println("VERIF-REPLAY: VIOLATED")
		t.Fatal("C20 violated: SetIdentity reports success for a mismatching identity")
	}
	fmt.Println("VERIF-REPLAY: HOLDS")
}
