package raft

import (
	"testing"
	"time"
)

// Property (D20, C15 / C09): compaction never invalidates what the leader hands to its replication tasks, and a
// node never takes itself down through a nil dereference.
//
// History. Three voters, small log segments. The leader commits 100 updates and every follower has all of
// them (matchIndex == lastLogIndex). TakeSnapshot: in (*Raft).onSnapshotTaken nowCompact == canCompact, so the
// log is compacted (PrevIndex moves up) but leader.removeLTE keeps its old value (it is assigned only when
// canCompact > nowCompact). The next stored entry makes (*leader).notifyFlr call
// log.ViewAt(l.removeLTE, l.lastLogIndex) with removeLTE < PrevIndex: ViewAt returns nil, the nil view is sent
// to every replication goroutine and (*replication).checkLeaderUpdate dereferences it.
func TestFinding_d20(t *testing.T) {
	c := newCluster(t)
	c.opt.LogSegmentSize = 1024
	ldr, flrs := c.ensureLaunch(3)
	defer c.shutdown()

	c.sendUpdates(ldr, 1, 100)
	c.waitBarrier(ldr, 0)
	c.waitFSMLen(100, flrs...)
	// let the heartbeat responses report matchIndex == lastLogIndex for both followers
	time.Sleep(4 * c.opt.HeartbeatTimeout)

	before := c.info(ldr).FirstLogIndex
	c.takeSnapshot(ldr, 10, nil)
	after := c.info(ldr).FirstLogIndex
	if after == before {
		t.Skipf("log was not compacted (first log index %d): the history did not arise", after)
	}
	t.Logf("compacted: first log index %d -> %d", before, after)

	// one more entry: notifyFlr hands the replications ViewAt(removeLTE, lastLogIndex)
	c.sendUpdates(ldr, 101, 101)
	c.waitFSMLen(101, flrs...)
}
