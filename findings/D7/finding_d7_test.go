package raft

import (
	"bufio"
	"bytes"
	"errors"
	"net"
	"testing"
	"time"
)

// d7Node builds a real *Raft (New on bootstrapped storage) plus the leader
// struct exactly the way Raft.stateLoop wires it. Dialing blocks until the
// test ends, so replication goroutines never deliver asynchronous updates.
func d7Node(t *testing.T, nid uint64, nodes map[uint64]Node) (*Raft, *leader) {
	t.Helper()
	dir := t.TempDir()
	opt := Options{HeartbeatTimeout: time.Second, PromoteThreshold: time.Second,
		Bandwidth: 256 * 1024, LogSegmentSize: 4 * 1024, SnapshotsRetain: 1}
	if err := SetIdentity(dir, 7007, nid); err != nil {
		t.Fatal(err)
	}
	if err := bootstrapStorage(dir, opt, nodes); err != nil {
		t.Fatal(err)
	}
	r, err := New(opt, &fsmMock{id: identity{7007, nid}}, dir)
	if err != nil {
		t.Fatal(err)
	}
	unblock := make(chan struct{})
	r.dialFn = func(network, address string, timeout time.Duration) (net.Conn, error) {
		<-unblock
		return nil, errors.New("d7: no network")
	}
	l := &leader{Raft: r, repls: make(map[uint64]*replication),
		transfer: transfer{timer: newSafeTimer(), newTermTimer: newSafeTimer()}}
	r.ldr, r.cnd = l, &candidate{Raft: r}
	go r.fsm.runLoop()
	t.Cleanup(func() {
		close(unblock)
		l.release()
		close(r.fsm.ch)
		_ = r.storage.log.Close()
	})
	return r, l
}

// d7Append delivers one AppendEntries request to the real follower handler.
func d7Append(t *testing.T, r *Raft, req *appendReq, entries ...*entry) {
	t.Helper()
	buf := new(bytes.Buffer)
	for _, e := range entries {
		if err := e.encode(buf); err != nil {
			t.Fatal(err)
		}
	}
	req.numEntries = uint64(len(entries))
	c := &conn{bufr: bufio.NewReader(buf)}
	_, _ = c.bufr.Peek(1) // fill the buffer: entries are "already received"
	if result, err := r.onAppendEntriesRequest(req, c); result != success || err != nil {
		t.Fatalf("appendEntries: result=%v err=%v", result, err)
	}
}

// Property (D7): "A new configuration is introduced only when the previous one
// is committed AND the leader has committed an entry of its own term."
//
// History. Voters {1..5}, bootstrap config at index 1 (term 1). M2 leads term 2
// and executes ChangeConfig{M4: Demote, M5: Demote}: the leader can run only one
// action at a time, so it stores C1 = {M4 nonvoter, M5 voter+Demote} at index 3.
// M1 receives [nop@2, C1@3]; later (a probe with prevLogIndex=3 after C1 was
// committed on the leader) it learns ldrCommitIndex=3, so on M1 the latest
// config C1 is committed and still carries the pending Demote of M5. M2 dies,
// M1 wins term 3. leader.init calls checkConfigActions, which only asks
// canChangeConfig() - there is no "commitIndex >= startIndex" test as there is
// in onChangeConfig - and appends a new configuration entry before the term-3
// no-op exists, let alone is committed.
func TestFinding_d7(t *testing.T) {
	nodes := make(map[uint64]Node)
	for id := uint64(1); id <= 5; id++ {
		nodes[id] = Node{ID: id, Addr: "127.0.0.1:" + string(rune('0'+id)) + "000", Voter: true}
	}
	r, l := d7Node(t, 1, nodes)

	// ---- term 2: M1 follows M2 -------------------------------------------
	c1 := Config{Nodes: map[uint64]Node{}, Index: 3, Term: 2}
	for id, n := range nodes {
		c1.Nodes[id] = n
	}
	c1.Nodes[4] = Node{ID: 4, Addr: nodes[4].Addr, Voter: false}
	c1.Nodes[5] = Node{ID: 5, Addr: nodes[5].Addr, Voter: true, Action: Demote}
	if err := c1.validate(); err != nil {
		t.Fatal(err)
	}
	d7Append(t, r, &appendReq{req: req{term: 2, src: 2}, prevLogIndex: 1, prevLogTerm: 1, ldrCommitIndex: 1},
		&entry{index: 2, term: 2, typ: entryNop}, c1.encode())
	d7Append(t, r, &appendReq{req: req{term: 2, src: 2}, prevLogIndex: 3, prevLogTerm: 2, ldrCommitIndex: 3})
	if !(r.commitIndex == 3 && r.configs.IsCommitted() && r.configs.Latest.Index == 3) {
		t.Fatalf("setup: commitIndex=%d configs=%v", r.commitIndex, r.configs)
	}

	// ---- term 3: M1 wins the election (what candidate.onVoteResult does) ----
	r.setLeader(0)
	r.setVotedFor(r.term+1, r.nid)
	r.setState(Leader)
	r.setLeader(r.nid)
	l.init()

	// ---- check -----------------------------------------------------------
	for i := l.startIndex; i <= r.lastLogIndex; i++ {
		e := &entry{}
		r.storage.mustGetEntry(i, e)
		if e.typ == entryConfig && r.commitIndex < l.startIndex {
			var c Config
			_ = c.decode(e)
			t.Errorf("D7 violated: leader M%d of term %d appended configuration entry index=%d term=%d "+
				"while it has NOT committed an entry of its own term: commitIndex=%d < startIndex=%d "+
				"(onChangeConfig would answer ErrNotCommitReady here). previous=%v new=%v; "+
				"the term's no-op is only at index %d",
				r.nid, r.term, e.index, e.term, r.commitIndex, l.startIndex, c1, c, r.lastLogIndex)
		}
	}
}
