package log

import (
	"os"
	"path/filepath"
	"testing"
)

// D6: openSegments removes a dangling segment file and then RETURNS (inverted error test), so the
// remaining files of the directory are neither opened nor removed. A stale <k>.log survives Open and
// is mapped as if it were new when the log later rolls over (or is reset) to index k: entries that
// were never appended appear in the log (C14, C13).
func TestFinding_d6(t *testing.T) {
	dir := t.TempDir()
	opt := Options{FileMode: 0600, SegmentSize: 1024}
	l, err := Open(dir, 0700, opt)
	if err != nil {
		t.Fatal(err)
	}
	for i := 0; i < 5; i++ {
		if err := l.Append([]byte("entry")); err != nil {
			t.Fatal(err)
		}
	}
	if err := l.Close(); err != nil {
		t.Fatal(err)
	}
	// two dangling segment files, e.g. left by a crash while a suffix was being removed
	src, _ := os.ReadFile(filepath.Join(dir, "0.log"))
	for _, name := range []string{"100.log", "200.log"} {
		if err := os.WriteFile(filepath.Join(dir, name), src, 0600); err != nil {
			t.Fatal(err)
		}
	}
	l, err = Open(dir, 0700, opt)
	if err != nil {
		t.Fatal(err)
	}
	defer l.Close()
	if got := l.LastIndex(); got != 5 {
		t.Errorf("lastIndex=%d, want 5", got)
	}
	for _, name := range []string{"100.log", "200.log"} {
		if _, err := os.Stat(filepath.Join(dir, name)); err == nil {
			t.Errorf("D6: dangling segment file %s survived Open (openSegments returned after removing the first dangling file)", name)
		}
	}
}
