package raft

import (
	"errors"
	"net"
	"testing"
	"time"
)

// roundLeader builds a real *Raft (New on bootstrapped storage) for the single
// voter M1, wires the leader struct the way Raft.stateLoop does and wins term 2.
// With one voter every stored entry commits at once, so the leader is "commit
// ready". Dialing blocks until the test ends: replication goroutines deliver
// nothing asynchronously; matchIndex updates are fed to checkReplUpdates by hand.
func roundLeader(t *testing.T, threshold time.Duration) (*Raft, *leader) {
	t.Helper()
	dir := t.TempDir()
	opt := Options{HeartbeatTimeout: time.Second, PromoteThreshold: threshold,
		Bandwidth: 256 * 1024, LogSegmentSize: 4 * 1024, SnapshotsRetain: 1}
	if err := SetIdentity(dir, 9009, 1); err != nil {
		t.Fatal(err)
	}
	nodes := map[uint64]Node{1: {ID: 1, Addr: "127.0.0.1:1000", Voter: true}}
	if err := bootstrapStorage(dir, opt, nodes); err != nil {
		t.Fatal(err)
	}
	r, err := New(opt, &fsmMock{id: identity{9009, 1}}, dir)
	if err != nil {
		t.Fatal(err)
	}
	unblock := make(chan struct{})
	r.dialFn = func(network, address string, timeout time.Duration) (net.Conn, error) {
		<-unblock
		return nil, errors.New("round: no network")
	}
	l := &leader{Raft: r, repls: make(map[uint64]*replication),
		transfer: transfer{timer: newSafeTimer(), newTermTimer: newSafeTimer()}}
	r.ldr, r.cnd = l, &candidate{Raft: r}
	go r.fsm.runLoop()
	t.Cleanup(func() {
		close(unblock)
		l.release()
		close(r.fsm.ch)
		_ = r.storage.log.Close()
	})
	r.setVotedFor(r.term+1, r.nid) // candidate.startElection
	r.setState(Leader)             // candidate.onVoteResult, majority reached
	r.setLeader(r.nid)
	l.init()
	if r.commitIndex < l.startIndex {
		t.Fatalf("setup: commitIndex=%d startIndex=%d", r.commitIndex, l.startIndex)
	}
	return r, l
}

// Property (a): "A nonvoter is promoted only after its log caught up with the
// leader's in a COMPLETED round (matchIndex >= round.LastIndex) that took no
// longer than PromoteThreshold."
//
// History. M1 single voter, leader of term 2 (bootstrap@1, no-op@2).
//  1. ChangeConfig adds nonvoter M3 with Action Promote  -> config@3, round #1
//     begins with LastIndex=3.
//  2. two FSM updates are stored (@4,@5); M3 is slow: it acknowledges index 3
//     only after > PromoteThreshold. checkConfigAction finishes round #1 (End set),
//     sees it was too slow and there are new entries, and begins round #2
//     (LastIndex=5). round.begin does NOT reset End.
//  3. M3 acknowledges index 4 (< round #2's LastIndex 5 < lastLogIndex). Because
//     End is stale, finished() is true, Duration() = End(#1) - Start(#2) is
//     NEGATIVE, so "Duration() > promoteThreshold" is false and the leader
//     promotes M3 in a round that never completed.
func TestFinding_round(t *testing.T) {
	const threshold = 10 * time.Millisecond
	r, l := roundLeader(t, threshold)

	// 1. add nonvoter M3 with promote, through the real task path
	newConf := r.configs.Latest.clone()
	if err := newConf.AddNonvoter(3, "127.0.0.1:3000", true); err != nil {
		t.Fatal(err)
	}
	task := ChangeConfig(newConf)
	r.executeTask(task)
	select {
	case <-task.Done():
	case <-time.After(5 * time.Second):
		t.Fatal("ChangeConfig not answered")
	}
	if task.Err() != nil || l.repls[3] == nil || l.repls[3].status.round == nil {
		t.Fatalf("setup: err=%v repls=%v", task.Err(), l.repls)
	}
	status := &l.repls[3].status
	if rd := status.round; rd.Ordinal != 1 || rd.LastIndex != 3 || rd.finished() {
		t.Fatalf("setup: round=%+v", *rd)
	}

	// 2. new entries arrive, M3 completes round #1 slowly
	l.storeEntry(UpdateFSM([]byte("a")).newEntry()) // what stateLoop does for newEntryCh
	l.storeEntry(UpdateFSM([]byte("b")).newEntry())
	time.Sleep(5 * threshold)
	l.checkReplUpdates(replUpdate{status, matchIndex{3}})
	rd := *status.round
	if rd.Ordinal != 2 || rd.LastIndex != 5 || r.configs.Latest.Nodes[3].Voter {
		t.Fatalf("setup: expected round #2 with LastIndex 5, got %+v, config %v", rd, r.configs.Latest)
	}
	// (the duration of a round that has not finished is meaningless; only finished() is observable)
	if rd.finished() {
		t.Errorf("(a) round #%d has just begun (LastIndex=%d, matchIndex=%d) but finished()=%v and Duration()=%v: "+
			"begin() kept End of round #1 (End-Start=%v)",
			rd.Ordinal, rd.LastIndex, status.matchIndex, rd.finished(), rd.Duration(), rd.End.Sub(rd.Start))
	}

	// 3. M3 makes partial progress inside round #2
	last := r.lastLogIndex
	l.checkReplUpdates(replUpdate{status, matchIndex{4}})
	if n := r.configs.Latest.Nodes[3]; n.Voter {
		t.Errorf("(a) violated: nonvoter M3 was promoted (config index %d: voter=%v action=%v) with matchIndex=%d "+
			"< round #%d LastIndex=%d <= leader lastLogIndex=%d: the round has not completed and M3 has not "+
			"caught up; its only completed round (#1) took > PromoteThreshold=%v. round state: %+v",
			r.configs.Latest.Index, n.Voter, n.Action, status.matchIndex,
			rd.Ordinal, rd.LastIndex, last, threshold, rd)
	}
}
