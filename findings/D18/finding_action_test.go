package raft

import (
	"errors"
	"fmt"
	"net"
	"testing"
	"time"
)

// actionLeader builds a real *Raft (New on bootstrapped storage) for M1 in the
// cluster {M1 voter, M2 voter}, wires the leader struct the way Raft.stateLoop
// does, wins term 2 and commits the term's no-op. Dialing blocks until the test
// ends; M2's acknowledgements are fed to checkReplUpdates by hand.
func actionLeader(t *testing.T) (*Raft, *leader) {
	t.Helper()
	dir := t.TempDir()
	opt := Options{HeartbeatTimeout: time.Second, PromoteThreshold: time.Second,
		Bandwidth: 256 * 1024, LogSegmentSize: 4 * 1024, SnapshotsRetain: 1}
	if err := SetIdentity(dir, 6006, 1); err != nil {
		t.Fatal(err)
	}
	nodes := map[uint64]Node{
		1: {ID: 1, Addr: "127.0.0.1:1000", Voter: true},
		2: {ID: 2, Addr: "127.0.0.1:2000", Voter: true},
	}
	if err := bootstrapStorage(dir, opt, nodes); err != nil {
		t.Fatal(err)
	}
	r, err := New(opt, &fsmMock{id: identity{6006, 1}}, dir)
	if err != nil {
		t.Fatal(err)
	}
	unblock := make(chan struct{})
	r.dialFn = func(network, address string, timeout time.Duration) (net.Conn, error) {
		<-unblock
		return nil, errors.New("action: no network")
	}
	l := &leader{Raft: r, repls: make(map[uint64]*replication),
		transfer: transfer{timer: newSafeTimer(), newTermTimer: newSafeTimer()}}
	r.ldr, r.cnd = l, &candidate{Raft: r}
	go r.fsm.runLoop()
	t.Cleanup(func() {
		close(unblock)
		l.release()
		close(r.fsm.ch)
		_ = r.storage.log.Close()
	})
	r.setVotedFor(r.term+1, r.nid) // candidate.startElection
	r.setState(Leader)             // candidate.onVoteResult, majority reached
	r.setLeader(r.nid)
	l.init()
	l.checkReplUpdates(replUpdate{&l.repls[2].status, matchIndex{r.lastLogIndex}})
	if r.commitIndex < l.startIndex || !r.configs.IsCommitted() {
		t.Fatalf("setup: commitIndex=%d startIndex=%d configs=%v", r.commitIndex, l.startIndex, r.configs)
	}
	return r, l
}

// Property (c): "Every Node.Action in an accepted configuration is one of
// None..ForceRemove; a malformed ChangeConfig request is answered with an error,
// it never takes the leader down and never yields a configuration that cannot
// become stable."
func TestFinding_action(t *testing.T) {
	r, l := actionLeader(t)
	const bogus = Action(ForceRemove + 5)

	// ---- 1. bogus action on the leader's own node, real task path ------------
	own := r.configs.Latest.clone()
	if err := own.SetAction(1, bogus); err != nil { // SetAction -> Node.validate
		t.Logf("the malformed action is rejected up front: %v", err)
		return
	}
	if err := own.validate(); err != nil {
		t.Logf("the malformed configuration is rejected up front: %v", err)
		return
	}
	task := ChangeConfig(own)
	var panicked interface{}
	func() {
		defer func() { panicked = recover() }()
		r.executeTask(task) // what stateLoop does for `case t := <-r.taskCh`
	}()
	if panicked != nil {
		fatal := "no"
		func() {
			defer func() { fatal = fmt.Sprintf("yes: recoverErr re-panics with %v", recover()) }()
			_ = recoverErr(panicked) // what stateLoop's deferred recover does with it
		}()
		t.Errorf("(c) violated: ChangeConfig{M1(leader): %v} passed Node.validate/Config.validate and made "+
			"leader.onChangeConfig -> checkConfigActions PANIC with %q instead of replying an error "+
			"(task answered=%v). In Raft.stateLoop this panic kills the process: %s",
			bogus, panicked, isClosed(task.Done()), fatal)
	} else if task.Err() == nil {
		t.Errorf("(c) violated: ChangeConfig{M1: %v} accepted without error", bogus)
	}

	// ---- 2. bogus action on another node ---------------------------------
	other := r.configs.Latest.clone()
	if err := other.SetAction(2, bogus); err != nil {
		t.Logf("the malformed action is rejected up front: %v", err)
		return
	}
	task = ChangeConfig(other)
	r.executeTask(task)
	l.checkReplUpdates(replUpdate{&l.repls[2].status, matchIndex{r.lastLogIndex}}) // M2 acks
	select {
	case <-task.Done():
	case <-time.After(5 * time.Second):
		t.Fatal("ChangeConfig not answered")
	}
	latest := r.configs.Latest
	if task.Err() == nil && r.configs.IsCommitted() && !r.configs.IsStable() && latest.Nodes[2].nextAction() == None {
		t.Errorf("(c) violated: ChangeConfig{M2: %v} was accepted (err=nil) and committed at index %d; "+
			"the configuration %v can never become stable: IsStable()=%v but nextAction(M2)=%v, so the leader "+
			"has nothing to execute and WaitForStableConfig never completes; if M2 is ever elected, "+
			"leader.init -> checkConfigActions panics on its own node",
			bogus, latest.Index, latest, r.configs.IsStable(), latest.Nodes[2].nextAction())
	}
}
