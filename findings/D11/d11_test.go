package raft

// Replay of finding D11 (property C18: a failed/short encoding must surface as an error):
// obligation (*identityReq).encode#ensures:C18.encode-error-propagates, path
// "!(err != nil); err != nil" -- the error of writing cid is swallowed (`return nil`).

import (
	"errors"
	"fmt"
	"testing"
)

type verifFailAfter struct {
	n     int // bytes accepted before failing
	wrote int
}

func (w *verifFailAfter) Write(p []byte) (int, error) {
	if w.wrote+len(p) > w.n {
		return 0, errors.New("disk full")
	}
	w.wrote += len(p)
	return len(p), nil
}

func TestVerifReplayD11(t *testing.T) {
	w := &verifFailAfter{n: 16} // term and src fit, the write of cid fails
	req := &identityReq{req: req{term: 1, src: 2}, cid: 3, nid: 4}
	err := req.encode(w)
	fmt.Printf("encode returned %v after %d of 32 bytes were written\n", err, w.wrote)
	if err == nil && w.wrote != 32 {
		fmt.Println("VERIF-REPLAY: VIOLATED")
		t.Fatal("C18 violated: identityReq.encode reports success for a truncated encoding")
	}
	fmt.Println("VERIF-REPLAY: HOLDS")
}
