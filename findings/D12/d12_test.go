package log

import (
	"os"
	"path/filepath"
	"testing"
)

// D12: createSegment creates the file under its FINAL name and only then gives it its size and zero
// header. A crash between os.OpenFile(O_CREATE) and Truncate leaves an empty <k>.log; openSegment maps
// whatever exists under that name, an empty file cannot be mapped, so log.Open fails on every restart
// (C14: "after a crash at any point during any log operation, reopening the log succeeds").
// The crash image of the UNREPAIRED createSegment is reproduced here by hand: the file exists under its final
// name, nothing has been written to it yet. (The repaired createSegment builds the file as <k>.log.tmp and
// renames it when complete, so this image can no longer arise: obligation createSegment#crash_inv.)
func TestFinding_d12(t *testing.T) {
	dir := t.TempDir()
	opt := Options{FileMode: 0600, SegmentSize: 1024}
	l, err := Open(dir, 0700, opt)
	if err != nil {
		t.Fatal(err)
	}
	for i := 0; i < 3; i++ {
		if err := l.Append([]byte("entry")); err != nil {
			t.Fatal(err)
		}
	}
	if err := l.Close(); err != nil {
		t.Fatal(err)
	}
	// crash image of a roll-over to index 3: what createSegment has done when the process dies right
	// after os.OpenFile(name, O_RDWR|O_CREATE)
	crashImage := filepath.Join(dir, "3.log")
	f, err := os.OpenFile(crashImage, os.O_RDWR|os.O_CREATE, 0600)
	if err != nil {
		t.Fatal(err)
	}
	f.Close()
	l, err = Open(dir, 0700, opt)
	if err != nil {
		t.Fatalf("D12: log.Open fails after a crash inside createSegment: %v", err)
	}
	defer l.Close()
	if got := l.LastIndex(); got != 3 {
		t.Errorf("lastIndex=%d, want 3", got)
	}
}
