package raft

import (
	"errors"
	"net"
	"testing"
	"time"
)

// d8Leader builds a real *Raft (New on bootstrapped storage), wires the leader
// struct the way Raft.stateLoop does, wins term 2 and commits the term's no-op
// (so onChangeConfig's "commit ready" guard is satisfied). Dialing blocks until
// the test ends: replication goroutines deliver nothing asynchronously.
func d8Leader(t *testing.T, nodes map[uint64]Node) (*Raft, *leader) {
	t.Helper()
	dir := t.TempDir()
	opt := Options{HeartbeatTimeout: time.Second, PromoteThreshold: time.Second,
		Bandwidth: 256 * 1024, LogSegmentSize: 4 * 1024, SnapshotsRetain: 1}
	if err := SetIdentity(dir, 8008, 1); err != nil {
		t.Fatal(err)
	}
	if err := bootstrapStorage(dir, opt, nodes); err != nil {
		t.Fatal(err)
	}
	r, err := New(opt, &fsmMock{id: identity{8008, 1}}, dir)
	if err != nil {
		t.Fatal(err)
	}
	unblock := make(chan struct{})
	r.dialFn = func(network, address string, timeout time.Duration) (net.Conn, error) {
		<-unblock
		return nil, errors.New("d8: no network")
	}
	l := &leader{Raft: r, repls: make(map[uint64]*replication),
		transfer: transfer{timer: newSafeTimer(), newTermTimer: newSafeTimer()}}
	r.ldr, r.cnd = l, &candidate{Raft: r}
	go r.fsm.runLoop()
	t.Cleanup(func() {
		close(unblock)
		l.release()
		close(r.fsm.ch)
		_ = r.storage.log.Close()
	})
	// what candidate.startElection / onVoteResult do on a majority of votes
	r.setVotedFor(r.term+1, r.nid)
	r.setState(Leader)
	r.setLeader(r.nid)
	l.init()
	// every other node acknowledges the no-op => it is committed
	for _, repl := range l.repls {
		l.checkReplUpdates(replUpdate{&repl.status, matchIndex{r.lastLogIndex}})
	}
	if r.commitIndex < l.startIndex || !r.configs.IsCommitted() {
		t.Fatalf("setup: commitIndex=%d startIndex=%d configs=%v", r.commitIndex, l.startIndex, r.configs)
	}
	return r, l
}

// Property (D8): one ChangeConfig step introduces at most ONE new configuration,
// built from the latest one; an action that was executed is not undone.
//
// History. Voters {M1, M2}, M1 leads term 2, no-op@2 committed. The user submits
// ChangeConfig(latest + {M2: Demote}) through the real task path.
//   onChangeConfig -> checkConfigActions(t, newConf) -> checkConfigAction(M2):
//     stores C' = {M1 voter, M2 NONvoter} at index 3; storeEntry sees
//     numVoters == 1 and commits index 3 at once (onMajorityCommit).
//   back in onChangeConfig: l.configs.IsCommitted() is true AGAIN, which the code
//     reads as "no configActions changed", so it also stores the stale t.newConf
//     = {M1 voter, M2 VOTER+Demote} at index 4.
// Result: two configuration entries for one request; the committed demotion of
// M2 is undone (M2 is a voter again in the latest configuration, and index 4 now
// needs M2's acknowledgement to commit); the task is answered "success" at index 3.
func TestFinding_d8(t *testing.T) {
	nodes := map[uint64]Node{
		1: {ID: 1, Addr: "127.0.0.1:1000", Voter: true},
		2: {ID: 2, Addr: "127.0.0.1:2000", Voter: true},
	}
	r, _ := d8Leader(t, nodes)

	newConf := r.configs.Latest.clone()
	if err := newConf.SetAction(2, Demote); err != nil {
		t.Fatal(err)
	}
	before := r.lastLogIndex
	task := ChangeConfig(newConf)
	r.executeTask(task) // what stateLoop does for `case t := <-r.taskCh`
	select {
	case <-task.Done():
	case <-time.After(5 * time.Second):
		t.Fatal("ChangeConfig task not answered")
	}

	var stored []Config
	for i := before + 1; i <= r.lastLogIndex; i++ {
		e := &entry{}
		r.storage.mustGetEntry(i, e)
		if e.typ == entryConfig {
			var c Config
			_ = c.decode(e)
			stored = append(stored, c)
		}
	}
	committed, latest := r.configs.Committed, r.configs.Latest
	if len(stored) != 1 {
		t.Errorf("D8 violated: ONE ChangeConfig{M2: Demote} call stored %d configuration entries: %v "+
			"(task answered err=%v)", len(stored), stored, task.Err())
	}
	if !committed.Nodes[2].Voter && latest.Nodes[2].Voter {
		t.Errorf("D8 violated: executed action undone: committed config (index %d) has M2 voter=%v action=%v, "+
			"but the leader then appended the stale request config (index %d) with M2 voter=%v action=%v; "+
			"commitIndex=%d lastLogIndex=%d IsCommitted=%v",
			committed.Index, committed.Nodes[2].Voter, committed.Nodes[2].Action,
			latest.Index, latest.Nodes[2].Voter, latest.Nodes[2].Action,
			r.commitIndex, r.lastLogIndex, r.configs.IsCommitted())
	}
}
