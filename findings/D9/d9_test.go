package raft

// Replay of finding D9 (property C10): obligation
//   (*Raft).onInstallSnapRequest#crash_inv[after done]:C10.install-window
// A process crash right after sink.done() (the snapshot is published) and before the log is
// reset/compacted leaves a snapshot whose index lies beyond the log. The test performs the
// handler's storage operations up to that point on a real storage directory, "crashes" (closes
// and reopens with the real openStorage) and evaluates the crash invariant
//   log.PrevIndex <= snapshot index <= log.LastIndex
// on the recovered node; it then lets the node append the next entry the way the AppendEntries
// handler would.

import (
	"fmt"
	"io/ioutil"
	"os"
	"testing"
)

func TestVerifReplayD9(t *testing.T) {
	dir, err := ioutil.TempDir("", "d9")
	if err != nil {
		t.Fatal(err)
	}
	defer os.RemoveAll(dir)
	if err := SetIdentity(dir, 1, 1); err != nil {
		t.Fatal(err)
	}
	opt := DefaultOptions()
	s, err := openStorage(dir, opt)
	if err != nil {
		t.Fatal(err)
	}
	// what onInstallSnapRequest does first: store the snapshot (index 10, term 2) ...
	cfg := Config{Nodes: map[uint64]Node{1: {ID: 1, Addr: "localhost:7000", Voter: true}}, Index: 1, Term: 1}
	sink, err := s.snaps.new(10, 2, cfg)
	if err != nil {
		t.Fatal(err)
	}
	if _, err := sink.file.Write([]byte("state")); err != nil {
		t.Fatal(err)
	}
	if _, err := sink.done(nil); err != nil {
		t.Fatal(err)
	}
	// ... CRASH HERE: before clearLog()/compactLog(). Restart on the same directory:
	_ = s.log.Close()
	s2, err := openStorage(dir, opt)
	if err != nil {
		fmt.Println("VERIF-REPLAY: VIOLATED (restart failed:", err, ")")
		t.Fatal(err)
	}
	defer s2.log.Close()
	fmt.Printf("after restart: snapshot index=%d, log prevIndex=%d lastIndex=%d, storage.lastLogIndex=%d\n",
		s2.snaps.index, s2.log.PrevIndex(), s2.log.LastIndex(), s2.lastLogIndex)
	ok := s2.log.PrevIndex() <= s2.snaps.index && s2.snaps.index <= s2.log.LastIndex()
	// the follower now receives entry 11 (the leader continues after the snapshot)
	func() {
		defer func() {
			if v := recover(); v != nil {
				fmt.Println("appending entry 11 after the restart panicked:", v)
				ok = false
			}
		}()
		s2.appendEntry(&entry{index: 11, term: 2, typ: entryNop})
		e := &entry{}
		if err := s2.getEntry(11, e); err != nil {
			fmt.Println("entry 11 was appended but cannot be read back:", err)
			ok = false
		}
	}()
	if !ok {
		fmt.Println("VERIF-REPLAY: VIOLATED")
		t.Fatal("C10 violated: after the crash the log is not contiguous with the latest snapshot")
	}
	fmt.Println("VERIF-REPLAY: HOLDS")
}
