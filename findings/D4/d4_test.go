package raft

import "testing"

// D4: the term/vote (and identity) files carry two uint64 values in their NAME; openValue parsed them
// with strconv.ParseInt, so a value >= 2^63 (e.g. a node id, which may be any uint64) that value.set had
// stored durably could not be read back: the node failed to restart (C10), losing its recorded vote (C05).
func TestFinding_d4(t *testing.T) {
	dir := t.TempDir()
	v, err := openValue(dir, ".term")
	if err != nil {
		t.Fatal(err)
	}
	const term, candidate = uint64(7), uint64(1) << 63 // a legal node id
	if err := v.set(term, candidate); err != nil {
		t.Fatal(err)
	}
	v2, err := openValue(dir, ".term")
	if err != nil {
		t.Fatalf("D4: the vote (%d, %d) was stored durably but cannot be read back after a restart: %v", term, candidate, err)
	}
	if a, b := v2.get(); a != term || b != candidate {
		t.Fatalf("D4: stored (%d, %d), reopened as (%d, %d)", term, candidate, a, b)
	}
}
