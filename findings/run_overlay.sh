#!/bin/bash
# usage: run_overlay.sh <pkgdir relative to /repo> <test file> <TestName> : runs an in-package test through -overlay
export GOFLAGS=-mod=mod GOPROXY=off GOSUMDB=off GOTOOLCHAIN=local
pkg=$1; tf=$2; name=$3
T=$(mktemp -d); trap 'rm -rf $T' EXIT
echo "{\"Replace\":{\"/repo/$pkg/zz_verif_replay_test.go\":\"$tf\"}}" > $T/ov.json
cd /repo/$pkg && go test -overlay $T/ov.json -vet=off -count=1 -timeout 120s -run "^$name\$" . 2>&1 | tail -8
