package raft

import (
	"testing"
	"time"
)

// Property (D21, C15 / C08): a node never takes itself down through an internal assertion, and a membership
// request either takes effect and reports success or reports an error and changes nothing.
//
// History. A node with an identity but no configuration (not bootstrapped) is already known to a running
// cluster, e.g. it is being added as a non-voter, and hears from it before it has any configuration: the
// first AppendEntries probe (prevLogIndex beyond its empty log) or a vote request makes it adopt the
// cluster's term T >= 2. It is then handed a configuration change (the bootstrap path of executeTask, taken
// because it has no configuration). (*storage).bootstrap appends the configuration entry to the log and
// commits it durably, and only then calls setTerm(1): assert(1 > T) fails, recoverErr re-panics assertion
// failures, and the process dies - with the configuration entry already durable, although no success was
// ever reported.
func TestFinding_d21(t *testing.T) {
	dir := t.TempDir()
	opt := Options{HeartbeatTimeout: time.Second, PromoteThreshold: time.Second,
		Bandwidth: 256 * 1024, LogSegmentSize: 4 * 1024, SnapshotsRetain: 1}
	if err := SetIdentity(dir, 7021, 1); err != nil {
		t.Fatal(err)
	}
	r, err := New(opt, &fsmMock{id: identity{7021, 1}}, dir)
	if err != nil {
		t.Fatal(err)
	}
	defer func() { _ = r.storage.log.Close() }()
	r.ldr, r.cnd = &leader{Raft: r}, &candidate{Raft: r}

	// an AppendEntries probe of the leader of term 3 (the real follower handler)
	res, err := r.onAppendEntriesRequest(&appendReq{req: req{term: 3, src: 2}, prevLogIndex: 7, prevLogTerm: 3, ldrCommitIndex: 7}, &conn{})
	if err != nil || r.term != 3 || r.configs.IsBootstrapped() {
		t.Fatalf("setup: result=%v err=%v term=%d bootstrapped=%v", res, err, r.term, r.configs.IsBootstrapped())
	}

	nodes := map[uint64]Node{1: {ID: 1, Addr: "127.0.0.1:7021", Voter: true}}
	task := ChangeConfig(Config{Nodes: nodes}).(changeConfig)
	func() {
		defer func() {
			if v := recover(); v != nil {
				t.Errorf("D21: bootstrap of a node that already adopted term %d panicked: %v "+
					"(log now holds %d entr(ies) while lastLogIndex=%d; bootstrapped=%v)",
					r.term, v, r.storage.log.LastIndex(), r.lastLogIndex, r.configs.IsBootstrapped())
			}
		}()
		r.bootstrap(task)
	}()
	select {
	case <-task.Done():
		if task.Err() == nil && r.term < 3 {
			t.Errorf("D21: term went backwards: %d", r.term)
		}
		if task.Err() != nil && r.storage.log.LastIndex() != r.lastLogIndex {
			t.Errorf("D21: bootstrap reported %v but left the log with %d entries (lastLogIndex=%d)", task.Err(), r.storage.log.LastIndex(), r.lastLogIndex)
		}
	default:
	}
}
