#!/bin/sh
# usage: seedtest.sh <seed-id> <prop>... : applies the seeded patch to /repo, runs the checks, reverts
id=$1; shift
git -C /repo apply /verif/seeded/$id/patch.diff || exit 1
for p in "$@"; do /verif/bin/check $p 2>&1 | cut -c1-330 | tail -6; done
git -C /repo checkout -- .
