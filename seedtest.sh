#!/bin/sh
# usage: seedtest.sh <seed-id> <prop>... : applies the seeded patch to /repo, runs the checks, reverts.
# Refuses to run when /repo has uncommitted changes (the revert would destroy them).
id=$1; shift
if [ -n "$(git -C /repo status --porcelain)" ]; then echo "seedtest: /repo has uncommitted changes; commit first"; exit 2; fi
git -C /repo apply /verif/seeded/$id/patch.diff || exit 1
# evidence written while the seed is applied describes a mutated tree: keep the committed files
ev=$(mktemp -d); cp -a /verif/evidence/. $ev/
for p in "$@"; do /verif/bin/check $p 2>&1 | cut -c1-330 | tail -6; done
git -C /repo checkout -- .
cp -a $ev/. /verif/evidence/; rm -rf $ev
