#!/bin/sh
# usage: patchtest.sh <patch-file> <prop>... : applies a patch to a scratch copy of /repo at HEAD (never /repo itself),
# runs the quick checks of the given properties against the copy, prints their VIOLATION / summary lines and
# removes the copy. Evidence of these runs goes to the scratch directory, not to /verif/evidence.
patch=$1; shift
scratch=$(mktemp -d /tmp/verif-patchtest-XXXXXX)
trap 'rm -rf "$scratch"' EXIT
mkdir -p $scratch/verif/replay
# the committed tree (HEAD), so that uncommitted work in /repo neither leaks into the run nor is disturbed by it
mkdir -p $scratch/repo && git -C /repo archive HEAD | tar -x -C $scratch/repo
patch -p1 -s -d $scratch/repo -i "$patch" || { echo "patchtest: patch does not apply"; exit 2; }
cp /verif/known_findings.json $scratch/verif/
cp /verif/replay/prelude_raft_test.go $scratch/verif/replay/ 2>/dev/null
rc=0
for p in "$@"; do
  VERIF_NO_SELFTEST=1 /verif/bin/check $p --tier quick --repo $scratch/repo --verif $scratch/verif > $scratch/out.$p 2>&1; e=$?
  nv=$(grep -c '^VIOLATION' $scratch/out.$p)
  echo "== $p exit=$e violations=$nv"
  grep '^VIOLATION' $scratch/out.$p | cut -c1-300 | head -${PATCHTEST_LINES:-4}
  [ $e -ne 0 ] && rc=1
done
exit $rc
