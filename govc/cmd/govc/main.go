package main

import (
	"strings"
	"flag"
	"fmt"
	"os"
	"sort"
	"time"

	"govc/vc"
)

func main() {
	repo := flag.String("repo", "/repo", "repository")
	timeout := flag.Float64("t", 10, "solver timeout seconds")
	dump := flag.Bool("dump", false, "dump obligations")
	explain := flag.Bool("explain", false, "explain failed obligations conjunct by conjunct")
	only := flag.String("only", "", "explain only obligations whose name contains this")
	maxShow := flag.Int("max", 1000, "max failed obligations to print")
	paramsDump := flag.Bool("params", false, "print the parameter names of every function or view under contract (key<TAB>names)")
	flag.Parse()
	t0 := time.Now()
	e, err := vc.Load(*repo)
	if err != nil {
		fmt.Println("load:", err)
		os.Exit(2)
	}
	if *paramsDump {
		for _, l := range e.ParamTable() {
			fmt.Println(l)
		}
		return
	}
	fmt.Printf("loaded in %.1fs, %d contracts\n", time.Since(t0).Seconds(), len(e.Specs.Contracts))
	sc := vc.NewSolverCfg("/tmp/govc-obl", *timeout, 16)
	for _, key := range flag.Args() {
		t1 := time.Now()
		ctx := e.VerifyFunc(key)
		fmt.Printf("== %s: %d obligations, %d paths, %d ends (gen %.2fs)\n", key, len(ctx.Obls), ctx.Paths, ctx.Ends, time.Since(t1).Seconds())
		for _, er := range ctx.Errs {
			fmt.Println("  ERROR:", er)
		}
		ctx.Discharge(sc)
		bad := 0
		if len(ctx.VacuousSites) > 0 {
			fmt.Println("  VACUOUS: no satisfiable path continues after", ctx.VacuousSites)
		}
		for _, o := range ctx.Obls {
			if o.Kind == "canary" {
				if o.Verdict == "unsat" {
					fmt.Printf("  VACUOUS: return at line %d is unreachable @ %s\n", o.Pos.Line, o.Path)
				}
				continue
			}
			if o.Verdict != "unsat" || *dump {
				fmt.Printf("  [%s %s %.2fs] %s @ %s\n", o.Verdict, o.Solver, o.TimeS, o.Name, o.Path)
				if o.Verdict != "unsat" {
					bad++
					fmt.Printf("      file %s\n", o.File)
					if bad > *maxShow {
						continue
					}
					if *explain && strings.Contains(o.Name, *only) {
						for i, l := range ctx.Explain(sc, o) {
							if i < 6 {
								fmt.Println("        ", l)
							}
						}
					}
				}
			}
		}
		var notes []string
		for n := range ctx.Notes {
			notes = append(notes, n)
		}
		sort.Strings(notes)
		for _, n := range notes {
			fmt.Println("  note:", n)
		}
		fmt.Printf("   => %d/%d discharged (%.2fs)\n", len(ctx.Obls)-bad, len(ctx.Obls), time.Since(t1).Seconds())
	}
}
