// check decides one property: check <Cxx> [--tier quick|thorough]
package main

import (
	"encoding/json"
	"sort"
	"os/exec"
	"flag"
	"fmt"
	"os"
	"path/filepath"
	"strconv"
	"strings"

	"govc/vc"
)

func main() {
	fs := flag.NewFlagSet("check", flag.ExitOnError)
	tier := fs.String("tier", os.Getenv("VERIF_TIER"), "quick or thorough")
	repo := fs.String("repo", "/repo", "repository root")
	verif := fs.String("verif", "/verif", "verif root")
	only := fs.String("func", "", "restrict to one function key (debugging)")
	verbose := fs.Bool("v", false, "verbose")
	if len(os.Args) < 2 {
		fmt.Println("usage: check <property> [--tier quick|thorough]")
		os.Exit(2)
	}
	prop := os.Args[1]
	fs.Parse(os.Args[2:])
	if *tier == "" {
		*tier = "quick"
	}
	seed, _ := strconv.Atoi(os.Getenv("VERIF_SEED"))
	e, err := vc.Load(*repo)
	if err != nil {
		// the tree does not build: nothing can be decided
		fmt.Printf("check %s: cannot load %s: %v\n", prop, *repo, err)
		os.Exit(2)
	}
	opt := vc.CheckOpts{Prop: prop, Tier: *tier, VerifDir: *verif, Timeout: 20, Par: 16, Seed: seed}
	// debugging aid for the second-attempt stage: GOVC_TIMEOUT overrides the per-query limit (seconds)
	if *tier == "thorough" {
		opt.Timeout = 90
	}
	if t, err := strconv.ParseFloat(os.Getenv("GOVC_TIMEOUT"), 64); err == nil && t > 0 {
		opt.Timeout = t
	}
	if *only != "" {
		opt.OnlyFuncs = []string{*only}
	}
	res := e.RunCheck(opt)
	replayDir := filepath.Join(*verif, "replays")
	exit := 0
	for _, o := range res.Known {
		fmt.Printf("KNOWN-FINDING: property=%s %s [%s @ %s]\n", prop, res.KnownWhat[o].What, o.Name, o.Path)
	}
	ctxOf := map[string]*vc.FnCtx{}
	for _, c := range res.Funcs {
		ctxOf[c.Key] = c
	}
	for _, o := range res.Failed {
		path, reproduced := vc.Replay(e, res, ctxOf[o.Fn], o, replayDir)
		res.Replays[o] = path
		res.NoInput[o] = !reproduced
		suffix := ""
		if !reproduced {
			suffix = " no-failing-input-found"
		}
		fmt.Printf("VIOLATION property=%s replay=%s obligation=%q path=%q%s\n", prop, path, o.Name, o.Path, suffix)
		exit = 1
	}
	for i, ge := range res.GenErrors {
		p := filepath.Join(replayDir, fmt.Sprintf("%s__generator-error-%d.txt", prop, i))
		os.MkdirAll(replayDir, 0o755)
		os.WriteFile(p, []byte("obligation: generator-error (the function could not be brought under the verifier, nothing is decided)\n"+ge+"\n"), 0o644)
		fmt.Printf("VIOLATION property=%s replay=%s obligation=\"generator-error\" detail=%q no-failing-input-found\n", prop, p, ge)
		exit = 1
	}
	for i, v := range res.Vacuous {
		p := filepath.Join(replayDir, fmt.Sprintf("%s__vacuity-%d.txt", prop, i))
		os.MkdirAll(replayDir, 0o755)
		os.WriteFile(p, []byte("obligation: vacuity-guard\n"+v+"\n"), 0o644)
		fmt.Printf("VIOLATION property=%s replay=%s obligation=\"vacuity-guard\" detail=%q no-failing-input-found\n", prop, p, v)
		exit = 1
	}
	if len(res.Funcs) == 0 || len(res.Counted)+len(res.Known) == 0 {
		fmt.Printf("check %s: no obligations generated (nothing under contract for this property)\n", prop)
		exit = 2
	}
	// thorough tier: must-fail corpus. Every seeded defect of this property (independently written,
	// confirmed on the real code: /verif/seeded/<id>) is applied to a scratch copy of the tree and the
	// quick check of the property is run on it: it has to report a violation. A miss means the machinery
	// lost detection power; it is reported (SELFTEST-MISS) and recorded in the evidence, it is not a
	// violation of the property on the tree under check.
	var selftest []map[string]string
	if *tier == "thorough" && os.Getenv("VERIF_NO_SELFTEST") == "" && *only == "" {
		selftest = runSelfTest(prop, *repo, *verif)
	}
	ev := res.Evidence(opt, strings.Join(os.Args, " "))
	if selftest != nil {
		if cov, ok := ev["coverage"].(map[string]interface{}); ok {
			cov["must_fail_corpus"] = selftest
		}
	}
	os.MkdirAll(filepath.Join(*verif, "evidence"), 0o755)
	data, _ := json.MarshalIndent(ev, "", " ")
	os.WriteFile(filepath.Join(*verif, "evidence", prop+".json"), append(data, '\n'), 0o644)
	fmt.Printf("check %s [%s]: %d functions, %d obligations, %d discharged, %d known findings, %d failed, %.1fs\n",
		prop, *tier, len(res.Funcs), len(res.Counted), len(res.Counted)-len(res.Failed), len(res.Known), len(res.Failed), res.Wall)
	if *verbose {
		for _, c := range res.Funcs {
			fmt.Printf("  %s: %d obligations\n", c.Key, len(c.Obls))
		}
	}
	os.Exit(exit)
}

// runSelfTest applies each seeded defect of the property to a scratch copy and runs the quick check on it.
func runSelfTest(prop, repo, verif string) []map[string]string {
	dirs, _ := filepath.Glob(filepath.Join(verif, "seeded", prop+"-*"))
	var out []map[string]string
	self, _ := os.Executable()
	sort.Strings(dirs)
	if len(dirs) > 2 && os.Getenv("VERIF_SELFTEST_ALL") == "" {
		dirs = dirs[:2] // two seeds per property keep the thorough tier within a few times the quick tier
	}
	for _, d := range dirs {
		patch := filepath.Join(d, "patch.diff")
		if _, err := os.Stat(patch); err != nil {
			continue
		}
		id := filepath.Base(d)
		rec := map[string]string{"seed": id}
		scratch, err := os.MkdirTemp("", "verif-selftest-")
		if err != nil {
			rec["result"] = "skipped: " + err.Error()
			out = append(out, rec)
			continue
		}
		func() {
			defer os.RemoveAll(scratch)
			tree := filepath.Join(scratch, "repo")
			sv := filepath.Join(scratch, "verif")
			os.MkdirAll(sv, 0o755)
			if b, err := exec.Command("rsync", "-a", "--exclude", ".git", repo+"/", tree+"/").CombinedOutput(); err != nil {
				rec["result"] = "skipped: copy failed: " + string(b)
				return
			}
			if b, err := exec.Command("patch", "-p1", "-s", "-d", tree, "-i", patch).CombinedOutput(); err != nil {
				rec["result"] = "skipped: the seed does not apply to this tree: " + strings.TrimSpace(string(b))
				return
			}
			if data, err := os.ReadFile(filepath.Join(verif, "known_findings.json")); err == nil {
				os.WriteFile(filepath.Join(sv, "known_findings.json"), data, 0o644)
			}
			os.MkdirAll(filepath.Join(sv, "replay"), 0o755)
			if data, err := os.ReadFile(filepath.Join(verif, "replay", "prelude_raft_test.go")); err == nil {
				os.WriteFile(filepath.Join(sv, "replay", "prelude_raft_test.go"), data, 0o644)
			}
			cmd := exec.Command(self, prop, "--tier", "quick", "--repo", tree, "--verif", sv)
			cmd.Env = append(os.Environ(), "VERIF_NO_SELFTEST=1")
			b, _ := cmd.CombinedOutput()
			first := ""
			for _, l := range strings.Split(string(b), "\n") {
				if strings.HasPrefix(l, "VIOLATION ") {
					if i := strings.Index(l, "obligation="); i >= 0 {
						first = l[i:]
						if len(first) > 160 {
							first = first[:160]
						}
					}
					break
				}
			}
			if cmd.ProcessState != nil && cmd.ProcessState.ExitCode() == 1 && first != "" {
				rec["result"] = "caught"
				rec["by"] = first
			} else {
				rec["result"] = "MISSED"
			}
		}()
		if rec["result"] == "MISSED" {
			fmt.Printf("SELFTEST-MISS property=%s seed=%s (the check no longer reports this seeded defect)\n", prop, id)
		} else {
			fmt.Printf("SELFTEST property=%s seed=%s %s\n", prop, id, rec["result"])
		}
		out = append(out, rec)
	}
	return out
}
