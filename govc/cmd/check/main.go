// check decides one property: check <Cxx> [--tier quick|thorough]
package main

import (
	"encoding/json"
	"flag"
	"fmt"
	"os"
	"path/filepath"
	"strconv"
	"strings"

	"govc/vc"
)

func main() {
	fs := flag.NewFlagSet("check", flag.ExitOnError)
	tier := fs.String("tier", os.Getenv("VERIF_TIER"), "quick or thorough")
	repo := fs.String("repo", "/repo", "repository root")
	verif := fs.String("verif", "/verif", "verif root")
	only := fs.String("func", "", "restrict to one function key (debugging)")
	verbose := fs.Bool("v", false, "verbose")
	if len(os.Args) < 2 {
		fmt.Println("usage: check <property> [--tier quick|thorough]")
		os.Exit(2)
	}
	prop := os.Args[1]
	fs.Parse(os.Args[2:])
	if *tier == "" {
		*tier = "quick"
	}
	seed, _ := strconv.Atoi(os.Getenv("VERIF_SEED"))
	e, err := vc.Load(*repo)
	if err != nil {
		// the tree does not build: nothing can be decided
		fmt.Printf("check %s: cannot load %s: %v\n", prop, *repo, err)
		os.Exit(2)
	}
	opt := vc.CheckOpts{Prop: prop, Tier: *tier, VerifDir: *verif, Timeout: 20, Par: 16, Seed: seed}
	if *tier == "thorough" {
		opt.Timeout = 90
	}
	if *only != "" {
		opt.OnlyFuncs = []string{*only}
	}
	res := e.RunCheck(opt)
	replayDir := filepath.Join(*verif, "replays")
	exit := 0
	for _, o := range res.Known {
		fmt.Printf("KNOWN-FINDING: property=%s %s [%s @ %s]\n", prop, res.KnownWhat[o].What, o.Name, o.Path)
	}
	ctxOf := map[string]*vc.FnCtx{}
	for _, c := range res.Funcs {
		ctxOf[c.Key] = c
	}
	for _, o := range res.Failed {
		path, reproduced := vc.Replay(e, res, ctxOf[o.Fn], o, replayDir)
		res.Replays[o] = path
		res.NoInput[o] = !reproduced
		suffix := ""
		if !reproduced {
			suffix = " no-failing-input-found"
		}
		fmt.Printf("VIOLATION property=%s replay=%s obligation=%q path=%q%s\n", prop, path, o.Name, o.Path, suffix)
		exit = 1
	}
	for i, ge := range res.GenErrors {
		p := filepath.Join(replayDir, fmt.Sprintf("%s__generator-error-%d.txt", prop, i))
		os.MkdirAll(replayDir, 0o755)
		os.WriteFile(p, []byte("obligation: generator-error (the function could not be brought under the verifier, nothing is decided)\n"+ge+"\n"), 0o644)
		fmt.Printf("VIOLATION property=%s replay=%s obligation=\"generator-error\" detail=%q no-failing-input-found\n", prop, p, ge)
		exit = 1
	}
	for i, v := range res.Vacuous {
		p := filepath.Join(replayDir, fmt.Sprintf("%s__vacuity-%d.txt", prop, i))
		os.MkdirAll(replayDir, 0o755)
		os.WriteFile(p, []byte("obligation: vacuity-guard\n"+v+"\n"), 0o644)
		fmt.Printf("VIOLATION property=%s replay=%s obligation=\"vacuity-guard\" detail=%q no-failing-input-found\n", prop, p, v)
		exit = 1
	}
	if len(res.Funcs) == 0 || len(res.Counted)+len(res.Known) == 0 {
		fmt.Printf("check %s: no obligations generated (nothing under contract for this property)\n", prop)
		exit = 2
	}
	ev := res.Evidence(opt, strings.Join(os.Args, " "))
	os.MkdirAll(filepath.Join(*verif, "evidence"), 0o755)
	data, _ := json.MarshalIndent(ev, "", " ")
	os.WriteFile(filepath.Join(*verif, "evidence", prop+".json"), append(data, '\n'), 0o644)
	fmt.Printf("check %s [%s]: %d functions, %d obligations, %d discharged, %d known findings, %d failed, %.1fs\n",
		prop, *tier, len(res.Funcs), len(res.Counted), len(res.Counted)-len(res.Failed), len(res.Known), len(res.Failed), res.Wall)
	if *verbose {
		for _, c := range res.Funcs {
			fmt.Printf("  %s: %d obligations\n", c.Key, len(c.Obls))
		}
	}
	os.Exit(exit)
}
