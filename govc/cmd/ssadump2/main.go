package main

import (
	"fmt"
	"os"

	"golang.org/x/tools/go/packages"
	"golang.org/x/tools/go/ssa"
	"golang.org/x/tools/go/ssa/ssautil"
)

func main() {
	cfg := &packages.Config{Mode: packages.LoadAllSyntax, Dir: "/repo", BuildFlags: []string{"-tags=verif"}}
	pkgs, err := packages.Load(cfg, os.Args[1])
	if err != nil {
		panic(err)
	}
	prog, spkgs := ssautil.AllPackages(pkgs, ssa.BuilderMode(0))
	prog.Build()
	for _, p := range spkgs {
		for _, name := range os.Args[2:] {
			for fn := range ssautil.AllFunctions(prog) {
				if fn.Pkg == p && fn.String() == name {
					fn.WriteTo(os.Stdout)
					for _, af := range fn.AnonFuncs {
						af.WriteTo(os.Stdout)
					}
				}
			}
		}
	}
	fmt.Println("done")
}
