package vc

import "strings"

// sexpr is a minimal s-expression tree used to split big goals into conjuncts.
type sexpr struct {
	atom string
	kids []*sexpr
}

func parseSexpr(s string) *sexpr {
	pos := 0
	var rec func() *sexpr
	rec = func() *sexpr {
		for pos < len(s) && (s[pos] == ' ' || s[pos] == '\n') {
			pos++
		}
		if pos >= len(s) {
			return nil
		}
		if s[pos] == '(' {
			pos++
			n := &sexpr{}
			for {
				for pos < len(s) && (s[pos] == ' ' || s[pos] == '\n') {
					pos++
				}
				if pos >= len(s) {
					return n
				}
				if s[pos] == ')' {
					pos++
					return n
				}
				n.kids = append(n.kids, rec())
			}
		}
		start := pos
		for pos < len(s) && s[pos] != ' ' && s[pos] != '(' && s[pos] != ')' && s[pos] != '\n' {
			pos++
		}
		return &sexpr{atom: s[start:pos]}
	}
	return rec()
}

func (e *sexpr) String() string {
	if e.kids == nil && e.atom != "" {
		return e.atom
	}
	var b strings.Builder
	b.WriteByte('(')
	for i, k := range e.kids {
		if i > 0 {
			b.WriteByte(' ')
		}
		b.WriteString(k.String())
	}
	b.WriteByte(')')
	return b.String()
}

func (e *sexpr) head() string {
	if len(e.kids) > 0 && e.kids[0].kids == nil {
		return e.kids[0].atom
	}
	return ""
}

// splitGoal returns formulas whose conjunction is equivalent to g:
//   (and a b)            -> a, b
//   (=> p (and a b))     -> (=> p a), (=> p b)
//   (forall vs (..))     -> (forall vs part) for each part of the body
func splitGoal(g *sexpr, depth int) []*sexpr {
	if depth > 60 {
		return []*sexpr{g}
	}
	switch g.head() {
	case "and":
		var out []*sexpr
		for _, k := range g.kids[1:] {
			out = append(out, splitGoal(k, depth+1)...)
		}
		return out
	case "=>":
		if len(g.kids) == 3 {
			parts := splitGoal(g.kids[2], depth+1)
			if len(parts) > 1 {
				var out []*sexpr
				for _, p := range parts {
					out = append(out, &sexpr{kids: []*sexpr{{atom: "=>"}, g.kids[1], p}})
				}
				return out
			}
		}
	case "forall":
		if len(g.kids) == 3 {
			body := g.kids[2]
			if body.head() == "!" { // pattern annotation: do not split
				return []*sexpr{g}
			}
			parts := splitGoal(body, depth+1)
			if len(parts) > 1 {
				var out []*sexpr
				for _, p := range parts {
					out = append(out, &sexpr{kids: []*sexpr{{atom: "forall"}, g.kids[1], p}})
				}
				return out
			}
		}
	}
	return []*sexpr{g}
}

// SplitTerm splits a goal term into independently provable parts.
func SplitTerm(t Term) []Term {
	e := parseSexpr(t.S)
	if e == nil {
		return []Term{t}
	}
	parts := splitGoal(e, 0)
	if len(parts) <= 1 {
		return []Term{t}
	}
	var out []Term
	for _, p := range parts {
		out = append(out, Term{p.String(), SBool})
	}
	return out
}
