package vc

import (
	"fmt"
	"go/token"
	"go/types"
	"sort"
	"strings"

	"golang.org/x/tools/go/ssa"
)

// Obligation is one verification condition: under PC, Goal must hold.
type Obligation struct {
	Name    string
	Fn      string
	Kind    string // ensures, pre, nil, bounds, assert, frame, inv-entry, inv-preserved, decreases, panic, typeassert, div
	Label   string
	Path    string
	PC      []Term
	Goal    Term
	Pos     token.Position
	Bounded bool
	// filled by the solver stage
	Verdict string // unsat (discharged), sat, unknown, timeout
	Solver  string
	TimeS   float64
	Model   string
	File    string
	Relaxed bool
	Quick   bool // listed as a known finding: one short attempt, no model search
	Sites   []string // canaries: the call sites this path went through (cover check)
}

type WitnessExpr struct {
	Src  string
	Term Term
}

// FnCtx is the verification unit for one function under contract.
type FnCtx struct {
	E     *Engine
	Fn    *ssa.Function
	C     *Contract
	Key   string
	decls map[string]string // name -> declaration
	order []string
	nfresh int
	Obls  []*Obligation
	Errs  []string // unsupported constructs etc: the function is out of reach if non-empty
	Notes map[string]bool // assumptions used (uncontracted callees etc.)
	Paths int
	strLits map[string]Term
	suppress int
	loopsByFn map[*ssa.Function]map[*ssa.BasicBlock]*loopInfo
	trivial int
	faultSkipped int
	maxPaths int
	Bounded bool
	axiomsAdded bool
	Axioms []Term
	Witness []WitnessExpr
	Callees map[string]bool
	implAx  map[string]bool
	entryPC []Term
	Ends    int
	panicOnly bool
	setLib  bool
	countLib bool
	lamCache map[string]Term
	wordAx  map[string]bool
	opaqueDone map[string]bool
	VacuousSites []string // call sites no satisfiable path passes (filled by Discharge)
}

func (c *FnCtx) declare(name string, sort Sort) Term {
	if _, ok := c.decls[name]; !ok {
		c.decls[name] = fmt.Sprintf("(declare-fun %s () %s)", name, sort)
		c.order = append(c.order, name)
	}
	return Term{name, sort}
}

func (c *FnCtx) declareFun(name string, args []Sort, res Sort) {
	if _, ok := c.decls[name]; !ok {
		var as []string
		for _, a := range args {
			as = append(as, string(a))
		}
		c.decls[name] = fmt.Sprintf("(declare-fun %s (%s) %s)", name, strings.Join(as, " "), res)
		c.order = append(c.order, name)
	}
}

func (c *FnCtx) fresh(hint string, sort Sort) Term {
	c.nfresh++
	return c.declare(fmt.Sprintf("%s!%d", smtName(hint), c.nfresh), sort)
}

func (c *FnCtx) note(s string) { c.Notes[s] = true }

// ---- path state ------------------------------------------------------------

type deferred struct {
	call *callSite
}

type Frame struct {
	site    token.Pos
	fn      *ssa.Function
	env     map[ssa.Value]Val
	names   map[string]Val // source-level variable name -> current value (or *PtrV when isAddr)
	nameAddr map[string]bool
	defers  []*callSite
	k       func(st *State, out Outcome)
	active  map[*ssa.BasicBlock]int // loop headers currently being executed -> unroll count
	isDeferredCall bool
	depth   int
	measure map[*ssa.BasicBlock]Term
	discoverStop *loopInfo
}

type Outcome struct {
	Panic bool
	Vals  []Val
	PVal  *IfaceV
	Fr    *Frame // the frame that returned (its source-level names are visible to ensures clauses)
}

type State struct {
	pc     []Term
	pcSet  map[string]bool
	heap   map[string]Term
	epoch  int
	cells  map[int]Val
	W      Term
	Wk     int64
	frames []*Frame
	path   []string
	panicking *IfaceV
	recovered bool
	rec    *recorder
	dead   bool
	knownTags map[string]int
	storageFault bool
	lastCrash map[string]string
	goArgs [][]specVal // arguments of the go statements executed by the verified function on this path
	sites  map[string]bool // call sites of the verified function this path returned from normally
}

type recorder struct {
	keys   map[string][]Term // heap key -> object terms written (nil entry => whole)
	whole  map[string]bool
	sorts  map[string]Sort
	cells  map[int]bool
	allocs map[string]bool // references allocated while recording
	all    bool
	startFresh int
	parent *recorder
}

func newRecorder(start int, parent *recorder) *recorder {
	return &recorder{keys: map[string][]Term{}, whole: map[string]bool{}, sorts: map[string]Sort{}, allocs: map[string]bool{}, cells: map[int]bool{}, startFresh: start, parent: parent}
}

func (st *State) clone() *State {
	n := &State{
		pc:     append([]Term(nil), st.pc...),
		pcSet:  make(map[string]bool, len(st.pcSet)),
		heap:   make(map[string]Term, len(st.heap)),
		epoch:  st.epoch,
		cells:  make(map[int]Val, len(st.cells)),
		W:      st.W,
		Wk:     st.Wk,
		path:   append([]string(nil), st.path...),
		sites:  copySites(st.sites),
		goArgs: append([][]specVal(nil), st.goArgs...),
		panicking: st.panicking,
		recovered: st.recovered,
		rec:    st.rec,
		storageFault: st.storageFault,
		knownTags: make(map[string]int, len(st.knownTags)),
	}
	for k, v := range st.knownTags {
		n.knownTags[k] = v
	}
	n.lastCrash = make(map[string]string, len(st.lastCrash))
	for k, v := range st.lastCrash {
		n.lastCrash[k] = v
	}
	for k, v := range st.pcSet {
		n.pcSet[k] = v
	}
	for k, v := range st.heap {
		n.heap[k] = v
	}
	for k, v := range st.cells {
		n.cells[k] = v
	}
	for _, f := range st.frames {
		nf := &Frame{site: f.site, fn: f.fn, env: make(map[ssa.Value]Val, len(f.env)), names: make(map[string]Val, len(f.names)),
			nameAddr: copyBoolMap(f.nameAddr), defers: append([]*callSite(nil), f.defers...), k: f.k,
			active: make(map[*ssa.BasicBlock]int, len(f.active)), isDeferredCall: f.isDeferredCall, depth: f.depth,
			discoverStop: f.discoverStop}
		if f.measure != nil {
			nf.measure = map[*ssa.BasicBlock]Term{}
			for k, v := range f.measure {
				nf.measure[k] = v
			}
		}
		for k, v := range f.env {
			nf.env[k] = v
		}
		for k, v := range f.names {
			nf.names[k] = v
		}
		for k, v := range f.active {
			nf.active[k] = v
		}
		n.frames = append(n.frames, nf)
	}
	return n
}

func (st *State) top() *Frame { return st.frames[len(st.frames)-1] }

func (st *State) assume(t Term) {
	if t.IsTrue() {
		return
	}
	if st.pcSet[t.S] {
		return
	}
	st.pcSet[t.S] = true
	st.pc = append(st.pc, t)
}

// heapSort is the sort of a heap key given the leaf sort.
func (c *FnCtx) heapInit(key string, sort Sort, epoch int) Term {
	return c.declare(fmt.Sprintf("%s@%d", smtName(key), epoch), sort)
}

func (x *exec) getHeap(st *State, key string, sort Sort) Term {
	if t, ok := st.heap[key]; ok {
		return t
	}
	t := x.ctx.heapInit(key, sort, st.epoch)
	st.heap[key] = t
	return t
}

// setHeap replaces a heap array. obj is the object (or map / slice array ref) that was
// written, or nil when the whole array may have changed.
func (x *exec) setHeap(st *State, key string, t Term, obj *Term) {
	st.heap[key] = t
	for r := st.rec; r != nil; r = r.parent {
		r.sorts[key] = t.Sort
		if obj == nil {
			r.whole[key] = true
		} else {
			r.keys[key] = append(r.keys[key], *obj)
		}
	}
}

func (x *exec) setCell(st *State, id int, v Val) {
	st.cells[id] = v
	for r := st.rec; r != nil; r = r.parent {
		r.cells[id] = true
	}
}

// havocAll forgets the whole heap (call to an uncontracted function of the module).
func (x *exec) havocAll(st *State) {
	x.ctx.nfresh++
	st.epoch = x.ctx.nfresh
	st.heap = map[string]Term{}
	for r := st.rec; r != nil; r = r.parent {
		r.all = true
	}
	x.bumpW(st)
}

func (x *exec) bumpW(st *State) {
	nw := x.ctx.fresh("W", SInt)
	st.assume(Ge(nw, st.W))
	st.W = nw
}

// allocRef returns a fresh object reference, distinct from every earlier one.
func (x *exec) allocRef(st *State) Term {
	st.W = Add(st.W, One)
	// keep W a short term: name it
	nw := x.ctx.fresh("W", SInt)
	st.assume(Eq(nw, st.W))
	st.W = nw
	for r := st.rec; r != nil; r = r.parent {
		r.allocs[nw.S] = true
	}
	return nw
}

// ---- typed assumptions -----------------------------------------------------

// assumeLeaf adds the type invariant of one loaded leaf value.
// assumeLeafOwned: v was read from a field, element or map entry of the object `owner`. The
// allocation bound of a stored reference ("it is below the allocation watermark of this state")
// holds for the fields of ALLOCATED objects only: when the owner is a quantified reference it
// may denote an object that a callee allocates later (above the watermark), whose fields may
// point to other fresh objects. Owners that are program values are allocated by construction.
func (x *exec) assumeLeafOwned(st *State, l Leaf, v Term, owner Term) {
	if (l.Kind == LRef || l.Kind == LSliceArr) && strings.Contains(owner.S, "!q") {
		st.assume(Implies(Le(owner, st.W), And(Le(Zero, v), Le(v, st.W))))
		return
	}
	x.assumeLeaf(st, l, v)
}

func (x *exec) assumeLeaf(st *State, l Leaf, v Term) {
	switch l.Kind {
	case LInt:
		lo, hi, _ := intRange(l.T)
		st.assume(And(Le(lo, v), Le(v, hi)))
	case LRef:
		st.assume(And(Le(Zero, v), Le(v, st.W)))
	case LString:
		st.assume(Le(Zero, v))
	case LIfaceTag:
		st.assume(Le(Zero, v))
	case LSliceArr:
		st.assume(And(Le(Zero, v), Le(v, st.W)))
	case LSliceOff:
		st.assume(Le(Zero, v))
	case LSliceLen:
		st.assume(And(Le(Zero, v), Le(v, BigLit(p2(56))))) // physical bound on slice lengths
	case LSliceCap:
		st.assume(And(Le(Zero, v), Le(v, BigLit(p2(56)))))
	}
}

func (x *exec) assumeVal(st *State, v Val, t types.Type) {
	ls := leavesOf(t)
	ts := flattenVal(v, t)
	for i, l := range ls {
		x.assumeLeaf(st, l, ts[i])
	}
	if sv, ok := v.(*SliceV); ok {
		st.assume(Le(sv.Len, sv.Cap))
		st.assume(Implies(Eq(sv.Arr, Zero), Eq(sv.Cap, Zero)))
	}
	if tv, ok := v.(TupleV); ok {
		if tt, isT := t.(*types.Tuple); isT && tt.Len() == len(tv) {
			for _, e := range tv {
				if sv, isS := e.(*SliceV); isS {
					st.assume(Le(sv.Len, sv.Cap))
					st.assume(Implies(Eq(sv.Arr, Zero), Eq(sv.Cap, Zero)))
				}
			}
		}
	}
}

// freshVal makes an unconstrained value of Go type t (with its type invariant assumed).
func (x *exec) freshVal(st *State, hint string, t types.Type) Val {
	if tup, ok := t.(*types.Tuple); ok && tup.Len() == 0 {
		return TupleV(nil)
	}
	ls := leavesOf(t)
	ts := make([]Term, len(ls))
	for i, l := range ls {
		h := hint
		if l.Path != "" {
			h = hint + "." + l.Path
		}
		ts[i] = x.ctx.fresh(h, l.Sort)
	}
	v := unflattenVal(ts, t)
	x.assumeVal(st, v, t)
	return v
}

func zeroLeaf(l Leaf) Term {
	if l.Sort == SBool {
		return False
	}
	return Zero
}

func zeroVal(t types.Type) Val {
	if tup, ok := t.(*types.Tuple); ok && tup.Len() == 0 {
		return TupleV(nil)
	}
	ls := leavesOf(t)
	ts := make([]Term, len(ls))
	for i, l := range ls {
		ts[i] = zeroLeaf(l)
	}
	return unflattenVal(ts, t)
}

func sortedKeys(m map[string]bool) []string {
	ks := []string{}
	for k := range m {
		ks = append(ks, k)
	}
	sort.Strings(ks)
	return ks
}

func copyBoolMap(m map[string]bool) map[string]bool {
	n := make(map[string]bool, len(m))
	for k, v := range m {
		n[k] = v
	}
	return n
}

func copySites(m map[string]bool) map[string]bool {
	n := make(map[string]bool, len(m))
	for k := range m {
		n[k] = true
	}
	return n
}
