package vc

import (
	"go/ast"
	"fmt"
	"go/constant"
	"go/token"
	"go/types"
	"sort"
	"strings"

	"golang.org/x/tools/go/ssa"
)

type exec struct {
	ctx       *FnCtx
	e         *Engine
	sentinels map[string]*IfaceV
	cellN     int
	entry     *State
	topVars   map[string]specVal
	topFn     *ssa.Function
	pending      map[string]*pendingGroup
	pendingOrder []string
	cellIDs      map[string]int
}

type callSite struct {
	instr  ssa.Instruction
	common *ssa.CallCommon
	fnVal  Val
	args   []Val
	pos    token.Pos
}

type loopInfo struct {
	header  *ssa.BasicBlock
	body    map[*ssa.BasicBlock]bool
	ordinal int
}

type pathEnd struct{}

// ---- loops -------------------------------------------------------------------

func (x *exec) loopsOf(fn *ssa.Function) map[*ssa.BasicBlock]*loopInfo {
	if x.ctx.loopsByFn == nil {
		x.ctx.loopsByFn = map[*ssa.Function]map[*ssa.BasicBlock]*loopInfo{}
	}
	if m, ok := x.ctx.loopsByFn[fn]; ok {
		return m
	}
	m := map[*ssa.BasicBlock]*loopInfo{}
	for _, b := range fn.Blocks {
		for _, p := range b.Preds {
			if b.Dominates(p) { // back edge p -> b
				li := m[b]
				if li == nil {
					li = &loopInfo{header: b, body: map[*ssa.BasicBlock]bool{b: true}}
					m[b] = li
				}
				// natural loop: nodes reaching p without passing b
				stack := []*ssa.BasicBlock{p}
				for len(stack) > 0 {
					n := stack[len(stack)-1]
					stack = stack[:len(stack)-1]
					if li.body[n] {
						continue
					}
					li.body[n] = true
					stack = append(stack, n.Preds...)
				}
			}
		}
	}
	// ordinals: by source position of the header's first positioned instruction, fallback block index
	var hs []*ssa.BasicBlock
	for h := range m {
		hs = append(hs, h)
	}
	sort.Slice(hs, func(i, j int) bool {
		pi, pj := blockPos(hs[i]), blockPos(hs[j])
		if pi != pj {
			return pi < pj
		}
		return hs[i].Index < hs[j].Index
	})
	for i, h := range hs {
		m[h].ordinal = i + 1
	}
	x.ctx.loopsByFn[fn] = m
	return m
}

func blockPos(b *ssa.BasicBlock) token.Pos {
	// position of the loop: smallest valid position among instructions of the header, else of the body
	best := token.NoPos
	for _, in := range b.Instrs {
		if p := in.Pos(); p.IsValid() && (best == token.NoPos || p < best) {
			best = p
		}
		if d, ok := in.(*ssa.DebugRef); ok {
			if p := d.Expr.Pos(); p.IsValid() && (best == token.NoPos || p < best) {
				best = p
			}
		}
	}
	return best
}

// ---- running -----------------------------------------------------------------

func (x *exec) condDesc(v ssa.Value) string {
	if s, ok := x.e.condText[v.Pos()]; ok && s != "" {
		return s
	}
	if u, ok := v.(*ssa.UnOp); ok && u.Op == token.NOT {
		return "!" + x.condDesc(u.X)
	}
	// no source text: name the test by the operands we can describe, else by its line offset
	// inside the function (stable against edits elsewhere in the file)
	if bo, ok := v.(*ssa.BinOp); ok {
		l, r := x.operandDesc(bo.X), x.operandDesc(bo.Y)
		if l != "" && r != "" {
			return l + " " + bo.Op.String() + " " + r
		}
	}
	if in, ok := v.(ssa.Instruction); ok && in.Parent() != nil {
		for _, bi := range in.Block().Instrs {
			if p := bi.Pos(); p.IsValid() {
				return fmt.Sprintf("test@+%d", x.e.Fset.Position(p).Line-x.e.Fset.Position(in.Parent().Pos()).Line)
			}
		}
	}
	return v.Name()
}

func (x *exec) operandDesc(v ssa.Value) string {
	if c, ok := v.(*ssa.Const); ok {
		if c.Value == nil {
			return "nil"
		}
		return c.Value.ExactString()
	}
	if s, ok := x.e.condText[v.Pos()]; ok && s != "" {
		return s
	}
	if c, ok := v.(*ssa.Call); ok {
		if f := c.Call.StaticCallee(); f != nil {
			return f.Name() + "()"
		}
		if c.Call.IsInvoke() {
			return c.Call.Method.Name() + "()"
		}
	}
	return ""
}

func (x *exec) pushFrame(st *State, fn *ssa.Function, args []Val, bind []Val, k func(*State, Outcome)) {
	x.pushFrameAt(st, fn, args, bind, k, token.NoPos)
}

func (x *exec) pushFrameAt(st *State, fn *ssa.Function, args []Val, bind []Val, k func(*State, Outcome), site token.Pos) {
	fr := &Frame{site: site, fn: fn, env: map[ssa.Value]Val{}, names: map[string]Val{}, nameAddr: map[string]bool{},
		k: k, active: map[*ssa.BasicBlock]int{}, depth: len(st.frames)}
	if len(args) != len(fn.Params) {
		panic(unsupported(fmt.Sprintf("call of %s with %d args, want %d", fn.Name(), len(args), len(fn.Params))))
	}
	for i, p := range fn.Params {
		fr.env[p] = args[i]
		fr.names[p.Name()] = args[i]
	}
	for i, fv := range fn.FreeVars {
		fr.env[fv] = bind[i]
	}
	st.frames = append(st.frames, fr)
	if len(st.frames) > 12 {
		panic(unsupported("inline depth exceeded"))
	}
}

func (x *exec) popFrame(st *State) *Frame {
	fr := st.top()
	st.frames = st.frames[:len(st.frames)-1]
	return fr
}

// get evaluates an SSA operand in the top frame.
func (x *exec) get(st *State, v ssa.Value) Val {
	switch c := v.(type) {
	case *ssa.Const:
		return x.constVal(st, c)
	case *ssa.Function:
		return &FuncV{Fn: c, T: x.ctx.declare(smtName("fn."+CanonKey(c)), SInt)}
	case *ssa.Global:
		return &PtrV{Glob: c, Root: deref(c.Type())}
	case *ssa.Builtin:
		return &FuncV{Var: "builtin:" + c.Name()}
	}
	fr := st.top()
	if val, ok := fr.env[v]; ok {
		return val
	}
	panic(unsupported(fmt.Sprintf("value %s (%T) not in environment of %s", v.Name(), v, fr.fn.Name())))
}

func (x *exec) constVal(st *State, c *ssa.Const) Val {
	t := c.Type()
	if c.Value == nil { // zero value / nil
		return zeroVal(t)
	}
	switch u := t.Underlying().(type) {
	case *types.Basic:
		switch {
		case u.Info()&types.IsBoolean != 0:
			return BoolLit(constant.BoolVal(c.Value))
		case u.Info()&types.IsInteger != 0:
			iv := constant.ToInt(c.Value)
			b, ok := new(bigInt).SetString(iv.ExactString(), 10)
			if !ok {
				panic(unsupported("integer constant " + iv.ExactString()))
			}
			return BigLit(b)
		case u.Info()&types.IsString != 0:
			return x.strLit(st, constant.StringVal(c.Value))
		default:
			return x.ctx.declare(smtName("const."+c.Value.ExactString()), SInt)
		}
	}
	panic(unsupported("constant of type " + t.String()))
}

func (x *exec) strLit(st *State, s string) Term {
	if t, ok := x.ctx.strLits[s]; ok {
		return t
	}
	x.ctx.declareFun("strlen", []Sort{SInt}, SInt)
	id := len(x.ctx.strLits) + 1
	// string literals get small distinct positive ids; all other strings are >= 0 and
	// the empty string is 0.
	var t Term
	if s == "" {
		t = Zero
	} else {
		t = x.ctx.declare(fmt.Sprintf("slit%d", id), SInt)
	}
	x.ctx.strLits[s] = t
	x.ctx.Axioms = append(x.ctx.Axioms, Eq(app(SInt, "strlen", t), IntLit(int64(len(s)))))
	if s != "" {
		// distinct from the other literals
		for o, ot := range x.ctx.strLits {
			if o != s {
				x.ctx.Axioms = append(x.ctx.Axioms, Neq(t, ot))
			}
		}
	}
	return t
}

func (x *exec) runBlock(st *State, b *ssa.BasicBlock, pred *ssa.BasicBlock) {
	fr := st.top()
	// phis are evaluated simultaneously
	nphi := 0
	var phiVals []Val
	for _, in := range b.Instrs {
		phi, ok := in.(*ssa.Phi)
		if !ok {
			break
		}
		nphi++
		idx := -1
		for i, p := range b.Preds {
			if p == pred {
				idx = i
				break
			}
		}
		if idx < 0 {
			panic(unsupported("phi: predecessor not found"))
		}
		phiVals = append(phiVals, x.get(st, phi.Edges[idx]))
	}
	for i := 0; i < nphi; i++ {
		phi := b.Instrs[i].(*ssa.Phi)
		fr.env[phi] = phiVals[i]
		if phi.Comment != "" {
			fr.names[phi.Comment] = phiVals[i]
			delete(fr.nameAddr, phi.Comment)
		}
	}
	if li := x.loopsOf(fr.fn)[b]; li != nil {
		if !x.loopHeader(st, b, pred, li, nphi) {
			return
		}
	}
	x.runInstrs(st, b, nphi)
}

// loopHeader handles arrival at a loop header; it returns false when the path ends here.
func (x *exec) loopHeader(st *State, b, pred *ssa.BasicBlock, li *loopInfo, nphi int) bool {
	fr := st.top()
	var ls *LoopSpec
	key := CanonKey(fr.fn)
	if c := x.e.Specs.Contracts[key]; c != nil {
		ls = c.Loops[li.ordinal]
		c.Used = true
	}
	isBack := pred != nil && li.body[pred]
	if _, active := fr.active[b]; !active {
		isBack = false
	}
	if ls == nil || (len(ls.Invariants) == 0 && ls.Unroll == 0) {
		if st.rec != nil {
			// discovery mode of an enclosing loop: one pass is enough
			if isBack {
				return false
			}
			fr.active[b] = 1
			return true
		}
		x.ctx.Errs = append(x.ctx.Errs, fmt.Sprintf("%s: loop %d has no invariant and no unroll bound", key, li.ordinal))
		return false
	}
	if len(ls.Invariants) == 0 {
		// bounded unrolling
		n := fr.active[b]
		if n >= ls.Unroll {
			x.ctx.Bounded = true
			x.ctx.note(fmt.Sprintf("bounded: %s loop %d unrolled %d times", key, li.ordinal, ls.Unroll))
			return false
		}
		fr.active[b] = n + 1
		return true
	}
	se := x.bodyEnv(st)
	if isBack {
		for _, inv := range ls.Invariants {
			g := se.evalBool(inv.Expr)
			x.oblige(st, "inv-preserved", inv.Label, fmt.Sprintf("loop%d", li.ordinal), g, b.Instrs[0].Pos())
		}
		if ls.Decreases != nil {
			m1 := se.evalInt(ls.Decreases.Expr)
			if m0, ok := fr.measure[b]; ok {
				x.oblige(st, "decreases", ls.Decreases.Label, fmt.Sprintf("loop%d", li.ordinal), And(Le(Zero, m0), Lt(m1, m0)), b.Instrs[0].Pos())
			}
		}
		return false
	}
	// entry edge
	for _, inv := range ls.Invariants {
		g := se.evalBool(inv.Expr)
		x.oblige(st, "inv-entry", inv.Label, fmt.Sprintf("loop%d", li.ordinal), g, b.Instrs[0].Pos())
	}
	if st.rec == nil {
		// join point: continue once from the merged state of all arrivals (merge.go)
		x.addPending(st, b, li)
		return false
	}
	x.enterLoopInPlace(st, b, li, ls, nphi)
	return true
}

// enterLoop continues the exploration from a loop header with the merged arrival state.
func (x *exec) enterLoop(st *State, b *ssa.BasicBlock, li *loopInfo) {
	fr := st.top()
	ls := x.e.Specs.Contracts[CanonKey(fr.fn)].Loops[li.ordinal]
	nphi := 0
	for _, in := range b.Instrs {
		if _, ok := in.(*ssa.Phi); ok {
			nphi++
		}
	}
	x.enterLoopInPlace(st, b, li, ls, nphi)
	x.runInstrs(st, b, nphi)
}

func (x *exec) enterLoopInPlace(st *State, b *ssa.BasicBlock, li *loopInfo, ls *LoopSpec, nphi int) {
	// discovery pass: which heap keys / cells does one iteration write?
	rec := x.discover(st, b, li)
	// havoc
	x.havocLoop(st, b, li, rec, nphi)
	fr := st.top()
	fr.active[b] = 1
	se := x.bodyEnv(st)
	for _, inv := range ls.Invariants {
		st.assume(se.evalBool(inv.Expr))
	}
	if ls.Decreases != nil {
		if fr.measure == nil {
			fr.measure = map[*ssa.BasicBlock]Term{}
		}
		fr.measure[b] = se.evalInt(ls.Decreases.Expr)
	}
	st.path = append(st.path, fmt.Sprintf("loop%d", li.ordinal))
}

func (x *exec) discover(st *State, b *ssa.BasicBlock, li *loopInfo) *recorder {
	d := st.clone()
	rec := newRecorder(x.ctx.nfresh, d.rec)
	d.rec = rec
	// discovery ends at the frame boundary: replace continuations so that nothing escapes
	depth := len(d.frames)
	for _, f := range d.frames {
		f.k = func(*State, Outcome) {}
	}
	d.top().active[b] = 1
	d.top().discoverStop = li
	x.ctx.suppress++
	savedErrs := len(x.ctx.Errs)
	func() {
		defer func() {
			if r := recover(); r != nil {
				if u, ok := r.(unsupportedErr); ok {
					x.ctx.Errs = append(x.ctx.Errs, fmt.Sprintf("%s: in loop discovery: %s", CanonKey(d.frames[depth-1].fn), u.msg))
					return
				}
				panic(r)
			}
		}()
		nphi := 0
		for _, in := range b.Instrs {
			if _, ok := in.(*ssa.Phi); ok {
				nphi++
			}
		}
		x.runInstrs(d, b, nphi)
	}()
	_ = savedErrs
	x.ctx.suppress--
	return rec
}

func isPreLoopTerm(t Term, start int) bool {
	// every fresh name is hint!N and heap names are key@N (N from the same counter);
	// the term is pre-loop when all N <= start
	s := t.S
	for i := 0; i < len(s); i++ {
		if s[i] != '!' && s[i] != '@' {
			continue
		}
		j := i + 1
		n := 0
		for j < len(s) && s[j] >= '0' && s[j] <= '9' {
			n = n*10 + int(s[j]-'0')
			j++
		}
		if j > i+1 && n > start {
			return false
		}
		i = j - 1
	}
	return true
}

func (x *exec) havocLoop(st *State, b *ssa.BasicBlock, li *loopInfo, rec *recorder, nphi int) {
	fr := st.top()
	if rec.all {
		x.havocAll(st)
	}
	var keys []string
	seen := map[string]bool{}
	for k := range rec.keys {
		if !seen[k] {
			seen[k] = true
			keys = append(keys, k)
		}
	}
	for k := range rec.whole {
		if !seen[k] {
			seen[k] = true
			keys = append(keys, k)
		}
	}
	sort.Strings(keys)
	for _, k := range keys {
		cur, ok := st.heap[k]
		if !ok {
			cur = x.getHeap(st, k, rec.sorts[k])
		}
		precise := !rec.whole[k]
		onlyFresh := !rec.whole[k] // every other write goes to an object allocated inside the loop
		var pre []Term
		if precise {
			for _, o := range rec.keys[k] {
				if isPreLoopTerm(o, rec.startFresh) {
					pre = append(pre, o)
					continue
				}
				precise = false
				if !rec.allocs[o.S] {
					onlyFresh = false
				}
			}
		}
		switch {
		case precise:
			nt := cur
			done := map[string]bool{}
			for _, o := range pre {
				if done[o.S] {
					continue
				}
				done[o.S] = true
				nt = Store(nt, o, x.ctx.fresh("lh."+k, cur.Sort.elem()))
			}
			named := x.ctx.fresh("lh."+k, cur.Sort)
			st.assume(Eq(named, nt))
			x.setHeap(st, k, named, nil)
		case onlyFresh:
			// objects that existed before the loop (other than the ones written by name) keep
			// their value: the remaining writes went to objects allocated by the loop itself
			named := x.ctx.fresh("lh."+k, cur.Sort)
			q := Term{"o!qlh", SInt}
			conds := []Term{Lt(Zero, q), Le(q, st.W)}
			done := map[string]bool{}
			for _, o := range pre {
				if !done[o.S] {
					done[o.S] = true
					conds = append(conds, Neq(q, o))
				}
			}
			st.assume(Forall([]Term{q}, Implies(And(conds...), Eq(Select(named, q), Select(cur, q)))))
			x.setHeap(st, k, named, nil)
		default:
			x.setHeap(st, k, x.ctx.fresh("lh."+k, cur.Sort), nil)
		}
	}
	var cells []int
	for id := range rec.cells {
		cells = append(cells, id)
	}
	sort.Ints(cells)
	for _, id := range cells {
		old, ok := st.cells[id]
		if !ok {
			continue
		}
		x.setCell(st, id, x.havocLike(st, old))
	}
	for i := 0; i < nphi; i++ {
		phi := b.Instrs[i].(*ssa.Phi)
		nv := x.freshVal(st, "phi."+phi.Comment, phi.Type())
		fr.env[phi] = nv
		if phi.Comment != "" {
			fr.names[phi.Comment] = nv
		}
	}
	x.bumpW(st)
}

// havocLike makes a fresh value of the same shape as v.
func (x *exec) havocLike(st *State, v Val) Val {
	switch c := v.(type) {
	case Term:
		return x.ctx.fresh("hv", c.Sort)
	case *StructV:
		return x.freshVal(st, "hv", c.T)
	case *SliceV:
		n := &SliceV{x.ctx.fresh("hv.sarr", SInt), x.ctx.fresh("hv.soff", SInt), x.ctx.fresh("hv.slen", SInt), x.ctx.fresh("hv.scap", SInt)}
		st.assume(And(Le(Zero, n.Arr), Le(n.Arr, st.W), Le(Zero, n.Off), Le(Zero, n.Len), Le(n.Len, n.Cap)))
		return n
	case *IfaceV:
		n := &IfaceV{x.ctx.fresh("hv.itag", SInt), x.ctx.fresh("hv.ipay", SInt)}
		st.assume(Le(Zero, n.Tag))
		return n
	case *PtrV:
		if c.Cell != nil || c.Glob != nil {
			panic(unsupported("loop modifies a pointer-to-local variable"))
		}
		n := &PtrV{Obj: x.ctx.fresh("hv.ptr", SInt), Root: c.Root}
		st.assume(And(Le(Zero, n.Obj), Le(n.Obj, st.W)))
		return n
	case *MapIterV:
		return &MapIterV{Map: c.Map, MapT: c.MapT, Visited: x.ctx.fresh("hv.visited", ArrSort(SInt, SBool))}
	case TupleV:
		var n TupleV
		for _, e := range c {
			n = append(n, x.havocLike(st, e))
		}
		return n
	}
	panic(unsupported(fmt.Sprintf("havocLike %T", v)))
}

func (x *exec) runInstrs(st *State, b *ssa.BasicBlock, idx int) {
	for i := idx; i < len(b.Instrs); i++ {
		in := b.Instrs[i]
		switch ins := in.(type) {
		case *ssa.If:
			c := x.get(st, ins.Cond).(Term)
			desc := x.condDesc(ins.Cond)
			fr := st.top()
			if stop := fr.discoverStop; stop != nil {
				_ = stop
			}
			if c.IsTrue() {
				x.jump(st, b, b.Succs[0])
				return
			}
			if c.IsFalse() {
				x.jump(st, b, b.Succs[1])
				return
			}
			x.ctx.Paths++
			if x.ctx.Paths > x.ctx.maxPaths {
				panic(unsupported(fmt.Sprintf("more than %d paths", x.ctx.maxPaths)))
			}
			st2 := st.clone()
			st.assume(c)
			st.path = append(st.path, desc)
			x.jump(st, b, b.Succs[0])
			st2.assume(Not(c))
			st2.path = append(st2.path, "!("+desc+")")
			x.jump(st2, b, b.Succs[1])
			return
		case *ssa.Jump:
			x.jump(st, b, b.Succs[0])
			return
		case *ssa.Return:
			var vals []Val
			for _, r := range ins.Results {
				// `return v, f(&v)`: go/ssa loads v before the call, the gc compiler reads plain
				// variables after all calls of the statement. Follow gc: re-load a local variable
				// whose load precedes a call in the same block.
				if ld, ok := r.(*ssa.UnOp); ok && ld.Op == token.MUL && ld.Block() == b {
					if _, isAlloc := ld.X.(*ssa.Alloc); isAlloc && callBetween(b, ld, i) {
						if p, isPtr := x.get(st, ld.X).(*PtrV); isPtr {
							vals = append(vals, x.load(st, p))
							continue
						}
					}
				}
				vals = append(vals, x.get(st, r))
			}
			x.ret(st, vals)
			return
		case *ssa.Panic:
			v := x.get(st, ins.X)
			iv, ok := v.(*IfaceV)
			if !ok {
				panic(unsupported("panic with non-interface value"))
			}
			st.path = append(st.path, "panic@"+x.posStr(ins.Pos()))
			x.raise(st, iv)
			return
		case *ssa.RunDefers:
			x.runDefers(st, func(st *State) { x.runInstrs(st, b, i+1) })
			return
		case *ssa.Call:
			cs := x.mkCallSite(st, ins, &ins.Call)
			next := i + 1
			x.doCall(st, cs, func(st *State, res Val) {
				st.top().env[ins] = res
				if len(st.frames) == 1 {
					if st.sites == nil {
						st.sites = map[string]bool{}
					}
					st.sites[fmt.Sprintf("%s#%d", x.callDesc(ins), x.callOrdinal(st.top().fn, ins))] = true
				}
				x.ghostAfterCall(st, ins, res)
				x.crashPoint(st, "after "+x.callDesc(ins), ins.Pos())
				x.runInstrs(st, b, next)
			})
			return
		case *ssa.Defer:
			cs := x.mkCallSite(st, ins, &ins.Call)
			fr := st.top()
			fr.defers = append(fr.defers, cs)
		case *ssa.Go:
			if len(st.frames) == 1 {
				// the goroutine body is not executed, but what it is STARTED WITH is observable in
				// postconditions: goarg(k, i) = i-th argument of the k-th go statement of this path
				var as []specVal
				sig := ins.Call.Signature()
				for i, a := range ins.Call.Args {
					var t types.Type
					if i < sig.Params().Len() {
						t = sig.Params().At(i).Type()
					} else {
						t = a.Type()
					}
					as = append(as, specVal{V: x.get(st, a), T: t})
				}
				st.goArgs = append(st.goArgs, as)
			}
			x.ctx.note("go statement in " + CanonKey(st.top().fn) + " at " + x.posStr(ins.Pos()) + ": goroutine body not executed (T-go)")
		case *ssa.Select:
			x.doSelect(st, ins)
		default:
			x.step(st, in)
			if _, isStore := in.(*ssa.Store); isStore {
				x.crashPoint(st, "after store", in.Pos())
			}
		}
		if st.dead {
			return
		}
	}
}

// callBetween: is there a call instruction between the load ld and instruction index upto of block b?
func callBetween(b *ssa.BasicBlock, ld ssa.Instruction, upto int) bool {
	seen := false
	for j := 0; j < upto && j < len(b.Instrs); j++ {
		if b.Instrs[j] == ld {
			seen = true
			continue
		}
		if seen {
			if _, ok := b.Instrs[j].(*ssa.Call); ok {
				return true
			}
		}
	}
	return false
}

func (x *exec) jump(st *State, from, to *ssa.BasicBlock) {
	fr := st.top()
	if li := fr.discoverStop; li != nil && st.rec != nil {
		// discovery of a loop: stop at exits and at the back edge
		if !li.body[to] || to == li.header {
			if len(st.frames) == fr.depth+1 {
				return
			}
		}
	}
	x.runBlock(st, to, from)
}

func (x *exec) posStr(p token.Pos) string {
	if !p.IsValid() {
		return "?"
	}
	pos := x.e.Fset.Position(p)
	f := pos.Filename
	if i := strings.LastIndex(f, "/"); i >= 0 {
		f = f[i+1:]
	}
	return fmt.Sprintf("%s:%d", f, pos.Line)
}

// ret finishes the top frame normally.
func (x *exec) ret(st *State, vals []Val) {
	fr := x.popFrame(st)
	fr.k(st, Outcome{Vals: vals, Fr: fr})
}

// raise starts (or continues) panicking in the top frame: run its deferred calls, then
// either resume at the recover block or propagate to the caller.
func (x *exec) raise(st *State, pv *IfaceV) {
	st.panicking = pv
	st.recovered = false
	fr := st.top()
	depth := len(st.frames)
	x.runDefers(st, func(st *State) {
		if len(st.frames) != depth {
			panic(unsupported("frame mismatch after deferred calls"))
		}
		if st.recovered {
			st.recovered = false
			st.panicking = nil
			if fr.fn.Recover != nil {
				x.runBlock(st, fr.fn.Recover, nil)
				return
			}
			// no named results: return zero values
			var vals []Val
			res := fr.fn.Signature.Results()
			for i := 0; i < res.Len(); i++ {
				vals = append(vals, zeroVal(res.At(i).Type()))
			}
			x.ret(st, vals)
			return
		}
		p := st.panicking
		f := x.popFrame(st)
		f.k(st, Outcome{Panic: true, PVal: p})
	})
}

// runDefers runs the deferred calls of the top frame in LIFO order, then calls after.
func (x *exec) runDefers(st *State, after func(st *State)) {
	fr := st.top()
	if len(fr.defers) == 0 {
		after(st)
		return
	}
	cs := fr.defers[len(fr.defers)-1]
	fr.defers = fr.defers[:len(fr.defers)-1]
	depth := len(st.frames)
	x.doCallDeferred(st, cs, func(st *State, _ Val) {
		if len(st.frames) != depth {
			panic(unsupported("frame mismatch in runDefers"))
		}
		x.runDefers(st, after)
	})
}

// oblige records a proof obligation at the current point of the path.
func (x *exec) oblige(st *State, kind, label, detail string, goal Term, pos token.Pos) {
	if x.ctx.suppress > 0 {
		return
	}
	if (goal.IsTrue() || st.pcSet[goal.S]) && kind != "canary" {
		x.ctx.trivial++
		return
	}
	if st.storageFault && kind != "panic_ensures" && kind != "frame" && kind != "panic" {
		// a storage primitive has failed on this path (OpError panic in flight): the node is
		// terminating; only the exceptional postconditions are checked from here on
		x.ctx.faultSkipped++
		return
	}
	fn := x.ctx.Key
	cur := CanonKey(st.top().fn)
	name := fn + "#" + kind
	if detail != "" {
		name += "[" + detail + "]"
	}
	if label != "" {
		name += ":" + label
	}
	if cur != fn {
		name += "/in:" + cur
	}
	ob := &Obligation{
		Fn: fn, Kind: kind, Label: label, Path: strings.Join(st.path, "; "),
		PC: append([]Term(nil), st.pc...), Goal: goal, Name: name,
	}
	if pos.IsValid() {
		ob.Pos = x.e.Fset.Position(pos)
	}
	if kind == "canary" {
		for k := range st.sites {
			ob.Sites = append(ob.Sites, k)
		}
		sort.Strings(ob.Sites)
	}
	x.ctx.Obls = append(x.ctx.Obls, ob)
}

// check = oblige + assume (used for implicit run-time checks that panic otherwise).
func (x *exec) check(st *State, kind, detail string, goal Term, pos token.Pos) {
	x.oblige(st, kind, "", detail, goal, pos)
	st.assume(goal)
}

// crashPoint: the crash invariant of the function under verification must hold here (a
// process or machine crash may happen between any two operations).
func (x *exec) crashPoint(st *State, where string, pos token.Pos) {
	ct := x.ctx.C
	if len(ct.CrashInv) == 0 || x.ctx.suppress > 0 || len(st.frames) != 1 || st.top().fn != x.topFn {
		return
	}
	nq := 0
	se := &specEnv{x: x, pkg: x.specPkg(ct), vars: x.topVars, st: st, cur: st, old: x.entry, nq: &nq, what: "crash_inv of " + x.ctx.Key}
	for _, c := range ct.CrashInv {
		g := se.evalBool(c.Expr)
		// the same formula as at the previous crash point of this path: already decided there
		// (the path condition only grew)
		if st.lastCrash[c.Label] == g.S {
			continue
		}
		st.lastCrash[c.Label] = g.S
		x.oblige(st, "crash_inv", c.Label, where, g, pos)
	}
}

func (x *exec) callDesc(c *ssa.Call) string {
	if f := c.Call.StaticCallee(); f != nil {
		return f.Name()
	}
	if c.Call.IsInvoke() {
		return c.Call.Method.Name()
	}
	return "call"
}

// ghostAfterCall executes the ghost assignments anchored after this call (contract directive
// ghostcode). Ghost state only: the assignments cannot influence the executable code.
func (x *exec) ghostAfterCall(st *State, ins *ssa.Call, res Val) {
	fn := st.top().fn
	ct := x.e.Specs.Contracts[CanonKey(fn)]
	if ct == nil || len(ct.Ghost) == 0 {
		return
	}
	name := x.callDesc(ins)
	ord := x.callOrdinal(fn, ins)
	for _, g := range ct.Ghost {
		if g.AtReturn || g.AtSend || g.Callee != name || g.Ord != ord {
			continue
		}
		nq := 0
		se := &specEnv{x: x, pkg: x.e.TPkg[ct.Pkg], vars: map[string]specVal{}, st: st, cur: st, frame: st.top(), nq: &nq, what: "ghostcode " + g.Src}
		sig := ins.Call.Signature()
		if tv, ok := res.(TupleV); ok {
			for i, v := range tv {
				se.vars[fmt.Sprintf("result%d", i)] = specVal{V: v, T: sig.Results().At(i).Type()}
			}
		} else if res != nil && sig.Results().Len() == 1 {
			se.vars["result0"] = specVal{V: res, T: sig.Results().At(0).Type()}
		}
		// arg0 .. argN: the values the call was made with (arg0 is the receiver of a method call)
		for i, a := range ins.Call.Args {
			se.vars[fmt.Sprintf("arg%d", i)] = specVal{V: x.get(st, a), T: a.Type()}
		}
		if ins.Call.IsInvoke() {
			se.vars["recv0"] = specVal{V: x.get(st, ins.Call.Value), T: ins.Call.Value.Type()}
		}
		x.execGhost(st, g, se)
	}
}

// callOrdinal: position of this call among the calls of the same name in fn, in source order (1-based).
func (x *exec) callOrdinal(fn *ssa.Function, ins *ssa.Call) int {
	name := x.callDesc(ins)
	ord := 1
	for _, b := range fn.Blocks {
		for _, in := range b.Instrs {
			if c, ok := in.(*ssa.Call); ok && c != ins && x.callDesc(c) == name && c.Pos() < ins.Pos() {
				ord++
			}
		}
	}
	return ord
}

// execGhost performs one ghost assignment in the environment se.
func (x *exec) execGhost(st *State, g *GhostStmt, se *specEnv) {
	rhs, ok := se.rval(se.evalRV(g.RHS.Expr)).(Term)
	if !ok {
		if p, isP := se.rval(se.evalRV(g.RHS.Expr)).(*PtrV); isP {
			rhs = x.ptrTerm(p)
		} else {
			se.fail("right-hand side is not a scalar or set")
		}
	}
	lhs := g.LHS.Expr
	var key *Term
	if ix, isIdx := lhs.(*ast.IndexExpr); isIdx {
		k, ok := se.rval(se.evalRV(ix.Index)).(Term)
		if !ok {
			se.fail("index is not a scalar")
		}
		key = &k
		lhs = ix.X
	}
	locs := x.modLocs(se, &Clause{Expr: lhs, Src: g.LHS.Src})
	if len(locs) != 1 {
		se.fail("left-hand side does not denote one ghost location")
	}
	l := locs[0]
	if !strings.HasPrefix(l.key, "G.") && !strings.HasPrefix(l.key, "GV.") {
		se.fail("left-hand side is not ghost state")
	}
	cur := x.getHeap(st, l.key, l.sort)
	// a guarded assignment (select arm): the location keeps its value unless the guard holds
	guarded := func(old Term) Term {
		if se.guard == nil {
			return rhs
		}
		return Ite(*se.guard, rhs, old)
	}
	switch {
	case l.ghostVar && key == nil:
		x.setHeap(st, l.key, guarded(cur), nil)
	case l.ghostVar:
		x.setHeap(st, l.key, Store(cur, *key, guarded(Select(cur, *key))), nil)
	case l.obj == nil:
		se.fail("left-hand side names every object's field")
	case key == nil:
		x.setHeap(st, l.key, Store(cur, *l.obj, guarded(Select(cur, *l.obj))), l.obj)
	default:
		x.setHeap(st, l.key, Store(cur, *l.obj, Store(Select(cur, *l.obj), *key, guarded(Select(Select(cur, *l.obj), *key)))), l.obj)
	}
}

// chanSites lists the send (or receive) sites of fn in source order: plain send statements /
// receive expressions and the corresponding arms of select statements.
type chanSite struct {
	pos  token.Pos
	ins  ssa.Instruction
	arm  int // index of the select state, -1 for a plain operation
	recv int // for select receives: index among the receive states (position in the result tuple)
}

func chanSites(fn *ssa.Function, send bool) []chanSite {
	var out []chanSite
	for _, b := range fn.Blocks {
		for _, in := range b.Instrs {
			switch v := in.(type) {
			case *ssa.Send:
				if send {
					out = append(out, chanSite{pos: v.Pos(), ins: v, arm: -1})
				}
			case *ssa.UnOp:
				if !send && v.Op == token.ARROW {
					out = append(out, chanSite{pos: v.Pos(), ins: v, arm: -1})
				}
			case *ssa.Select:
				nr := 0
				for i, s := range v.States {
					if s.Dir == types.SendOnly && send {
						out = append(out, chanSite{pos: s.Pos, ins: v, arm: i})
					}
					if s.Dir == types.RecvOnly {
						if !send {
							out = append(out, chanSite{pos: s.Pos, ins: v, arm: i, recv: nr})
						}
						nr++
					}
				}
			}
		}
	}
	sort.Slice(out, func(a, b int) bool { return out[a].pos < out[b].pos })
	return out
}

// ghostAtChan runs the ghost assignments anchored at send sites and assumes the channel invariants
// declared for receive sites (directives `ghostcode at send K` and `recvassume K`). idx is the arm
// chosen by a select (nil for plain operations); vals are the values received by the select's arms.
func (x *exec) ghostAtChan(st *State, in ssa.Instruction, idx *Term, recvVals []Val) {
	if len(st.frames) == 0 {
		return
	}
	fn := st.top().fn
	ct := x.e.Specs.Contracts[CanonKey(fn)]
	if ct == nil || (len(ct.Ghost) == 0 && len(ct.RecvAssume) == 0) {
		return
	}
	for ord, site := range chanSites(fn, true) {
		if site.ins != in {
			continue
		}
		for _, g := range ct.Ghost {
			if !g.AtSend || g.Ord != ord+1 {
				continue
			}
			nq := 0
			se := &specEnv{x: x, pkg: x.e.TPkg[ct.Pkg], vars: map[string]specVal{}, st: st, cur: st, frame: st.top(), nq: &nq, what: "ghostcode " + g.Src}
			if idx != nil && site.arm >= 0 {
				gd := Eq(*idx, IntLit(int64(site.arm)))
				se.guard = &gd
			}
			x.execGhost(st, g, se)
		}
	}
	for ord, site := range chanSites(fn, false) {
		if site.ins != in {
			continue
		}
		for _, ra := range ct.RecvAssume {
			if ra.Ord != ord+1 {
				continue
			}
			var val Val
			var et types.Type
			switch v := in.(type) {
			case *ssa.UnOp:
				val = st.top().env[v]
				if tv, ok := val.(TupleV); ok {
					val = tv[0]
				}
				et = v.X.Type().Underlying().(*types.Chan).Elem()
			case *ssa.Select:
				if site.recv < len(recvVals) {
					val = recvVals[site.recv]
				}
				et = v.States[site.arm].Chan.Type().Underlying().(*types.Chan).Elem()
			}
			if val == nil {
				continue
			}
			nq := 0
			se := &specEnv{x: x, pkg: x.e.TPkg[ct.Pkg], vars: map[string]specVal{"recv": {V: val, T: et}}, st: st, cur: st, frame: st.top(), nq: &nq, what: "recvassume " + ra.Clause.Src}
			fact := se.evalBool(ra.Clause.Expr)
			if idx != nil && site.arm >= 0 {
				fact = Implies(Eq(*idx, IntLit(int64(site.arm))), fact)
			}
			st.assume(fact)
			x.ctx.note("ASSUMED channel invariant (directive recvassume, T-go): " + ra.Clause.Src)
		}
	}
}
