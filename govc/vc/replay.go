package vc

// Replay tries to reproduce a failed obligation on the real code. It returns the replay
// file and whether the real code violated the obligation's postcondition.
func Replay(e *Engine, res *CheckResult, ctx *FnCtx, o *Obligation, dir string) (string, bool) {
	return res.WriteReplay(dir, ctx, o, ""), false
}
