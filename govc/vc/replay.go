package vc

import (
	"bytes"
	"encoding/json"
	"fmt"
	"go/ast"
	"go/types"
	"os"
	osexec "os/exec"
	"path/filepath"
	"regexp"
	"sort"
	"strings"

	"golang.org/x/tools/go/ssa"
)

// ---------------------------------------------------------------------------------------
// Replay: turn the solver's counterexample of a failed obligation into an in-package Go test
// that builds the input state on the REAL types, calls the REAL function and evaluates the
// failed postcondition (compiled from the contract clause). The test is injected with
// `go test -overlay`, nothing is written to the repository.
//
// Reach: functions whose inputs are scalars and struct pointers (handlers on *Raft, *storage,
// *candidate, *follower, request structs). Maps, slices contents, byte streams and quantified
// postconditions are not synthesised: such obligations are reported with
// "no-failing-input-found" (the replay file then carries the obligation and the solver output).

// witnessTerms extracts from the obligation the entry-state terms whose values identify the input:
// parameters (in.x!N) and selects of initial heap arrays (H.*@0).
func witnessTerms(o *Obligation) []string {
	seen := map[string]bool{}
	var out []string
	add := func(s string) {
		if !seen[s] {
			seen[s] = true
			out = append(out, s)
		}
	}
	scan := func(s string) {
		for i := 0; i < len(s); i++ {
			if strings.HasPrefix(s[i:], "(select H.") || strings.HasPrefix(s[i:], "(select GV.") {
				depth := 0
				j := i
				for ; j < len(s); j++ {
					if s[j] == '(' {
						depth++
					} else if s[j] == ')' {
						depth--
						if depth == 0 {
							break
						}
					}
				}
				t := s[i : j+1]
				if initialOnly(t) {
					add(t)
				}
			}
		}
		for _, m := range inParamRe.FindAllString(s, -1) {
			add(m)
		}
	}
	for _, p := range o.PC {
		scan(p.S)
	}
	scan(o.Goal.S)
	sort.Strings(out)
	if len(out) > 400 {
		out = out[:400]
	}
	return out
}

var inParamRe = regexp.MustCompile(`in\.[A-Za-z0-9_.]+![0-9]+`)
var heapVerRe = regexp.MustCompile(`@([0-9]+)`)

// initialOnly: the term mentions only entry-state heap arrays (@0), parameters and literals.
func initialOnly(t string) bool {
	for _, m := range heapVerRe.FindAllStringSubmatch(t, -1) {
		if m[1] != "0" {
			return false
		}
	}
	if strings.Contains(t, "store") || strings.Contains(t, "ite") || strings.Contains(t, "!q") {
		return false
	}
	// every "!" name must be a parameter
	for _, m := range regexp.MustCompile(`[A-Za-z0-9_.]+![0-9]+`).FindAllString(t, -1) {
		if !strings.HasPrefix(m, "in.") {
			return false
		}
	}
	return true
}

// parseModel parses "((t1 v1)\n (t2 v2))" from a get-value answer.
func parseModel(out string) map[string]string {
	res := map[string]string{}
	i := strings.Index(out, "((")
	if i < 0 {
		return res
	}
	e := parseSexpr(out[i:])
	if e == nil {
		return res
	}
	for _, pair := range e.kids {
		if len(pair.kids) == 2 {
			res[pair.kids[0].String()] = pair.kids[1].String()
		}
	}
	return res
}

func smtInt(v string) (string, bool) {
	v = strings.TrimSpace(v)
	if strings.HasPrefix(v, "(- ") {
		n := strings.TrimSuffix(strings.TrimPrefix(v, "(- "), ")")
		return "-" + n, true
	}
	for _, c := range v {
		if c < '0' || c > '9' {
			return "", false
		}
	}
	return v, v != ""
}

type replayObj struct {
	name  string
	typ   types.Type // struct type
	id    string     // model value of the reference
	field map[string]string
}

type replayGen struct {
	e      *Engine
	ctx    *FnCtx
	o      *Obligation
	model  map[string]string
	objs   map[string]*replayObj // by "typeKey#id"
	order  []*replayObj
	lines  []string
	params map[string]string // param name -> Go expression
	fail   string
}

// accessPath turns "(select H.raft.storage.term@0 <obj>)" into (objTerm, typeKey, leafPath).
func splitSelect(t string) (heap, arg string, ok bool) {
	if !strings.HasPrefix(t, "(select ") {
		return "", "", false
	}
	rest := t[len("(select ") : len(t)-1]
	sp := strings.Index(rest, " ")
	if sp < 0 {
		return "", "", false
	}
	return rest[:sp], rest[sp+1:], true
}

// namedStruct finds the module struct type whose typeKey is k.
func (e *Engine) namedStruct(k string) types.Type {
	for _, tt := range e.tagTypes {
		if tt == nil {
			continue
		}
		if _, isPtr := tt.(*types.Pointer); isPtr {
			continue
		}
		if typeKey(tt) == k {
			return tt
		}
	}
	return nil
}

func (g *replayGen) objFor(t types.Type, id string) *replayObj {
	k := typeKey(t) + "#" + id
	if o, ok := g.objs[k]; ok {
		return o
	}
	o := &replayObj{name: fmt.Sprintf("o%d", len(g.order)+1), typ: t, id: id, field: map[string]string{}}
	g.objs[k] = o
	g.order = append(g.order, o)
	return o
}

// goType prints a type for use inside its own package.
func (g *replayGen) goType(t types.Type) string {
	return types.TypeString(t, func(p *types.Package) string {
		if g.ctx.Fn.Pkg != nil && p == g.ctx.Fn.Pkg.Pkg {
			return ""
		}
		return p.Name()
	})
}

// Replay tries to reproduce a failed obligation on the real code. It returns the replay file and
// whether the real code violated the obligation's postcondition.
func Replay(e *Engine, res *CheckResult, ctx *FnCtx, o *Obligation, dir string) (string, bool) {
	os.MkdirAll(dir, 0o755)
	g := &replayGen{e: e, ctx: ctx, o: o, objs: map[string]*replayObj{}, params: map[string]string{}}
	src, reason := g.generate()
	if src == "" {
		return res.WriteReplay(dir, ctx, o, "replay: not attempted: "+reason), false
	}
	base := unsafeFile.ReplaceAllString(res.Prop+"__"+o.Name+"__"+fmt.Sprintf("%08x", hashString(o.Path)), "_")
	if len(base) > 160 {
		base = base[:160]
	}
	testFile := filepath.Join(dir, base+"_test.go")
	os.WriteFile(testFile, []byte(src), 0o644)
	out, violated, ran := runReplay(e, ctx, testFile)
	extra := fmt.Sprintf("replay test: %s\nrun with: cd %s && go test -overlay <overlay.json mapping zz_verif_replay_test.go to the file above and zz_verif_prelude_test.go to /verif/replay/prelude_%s_test.go> -vet=off -run TestVerifReplay .\n---- replay output ----\n%s",
		testFile, pkgDir(e, ctx), pkgName(ctx), out)
	if !ran {
		return res.WriteReplay(dir, ctx, o, extra+"\nreplay: the generated test did not build or did not finish"), false
	}
	if violated {
		res.WriteReplay(dir, ctx, o, extra)
		return testFile, true
	}
	return res.WriteReplay(dir, ctx, o, extra+"\nreplay: the candidate input did not violate the postcondition on the real code"), false
}

func pkgDir(e *Engine, ctx *FnCtx) string {
	p := ctx.Fn.Pkg.Pkg.Path()
	return filepath.Join(e.RepoDir, strings.TrimPrefix(strings.TrimPrefix(p, ModPath), "/"))
}

func pkgName(ctx *FnCtx) string { return ctx.Fn.Pkg.Pkg.Name() }

func runReplay(e *Engine, ctx *FnCtx, testFile string) (string, bool, bool) {
	dir := pkgDir(e, ctx)
	prelude := filepath.Join(filepath.Dir(filepath.Dir(testFile)), "replay", "prelude_"+pkgName(ctx)+"_test.go")
	tmp, err := os.MkdirTemp("", "govc-replay")
	if err != nil {
		return err.Error(), false, false
	}
	defer os.RemoveAll(tmp)
	repl := map[string]string{filepath.Join(dir, "zz_verif_replay_test.go"): testFile}
	if _, err := os.Stat(prelude); err == nil {
		repl[filepath.Join(dir, "zz_verif_prelude_test.go")] = prelude
	}
	ov, _ := json.Marshal(map[string]interface{}{"Replace": repl})
	ovf := filepath.Join(tmp, "ov.json")
	os.WriteFile(ovf, ov, 0o644)
	cmd := osexec.Command("go", "test", "-overlay", ovf, "-vet=off", "-count=1", "-timeout", "60s", "-run", "^TestVerifReplay$", ".")
	cmd.Dir = dir
	cmd.Env = append(os.Environ(), "GOFLAGS=-mod=mod", "GOPROXY=off", "GOSUMDB=off", "GOTOOLCHAIN=local")
	var buf bytes.Buffer
	cmd.Stdout = &buf
	cmd.Stderr = &buf
	cmd.Run()
	out := buf.String()
	if len(out) > 6000 {
		out = out[:6000]
	}
	switch {
	case strings.Contains(out, "VERIF-REPLAY: VIOLATED"):
		return out, true, true
	case strings.Contains(out, "VERIF-REPLAY: HOLDS"):
		return out, false, true
	}
	return out, false, false
}

// generate builds the Go test source, or returns "" and the reason.
func (g *replayGen) generate() (string, string) {
	o, ctx := g.o, g.ctx
	if !strings.Contains(o.Model, "((") {
		return "", "the solvers returned no model (" + o.Verdict + ")"
	}
	if o.Kind != "ensures" {
		return "", "only postconditions are replayed (obligation kind " + o.Kind + ")"
	}
	var clause *Clause
	for _, c := range ctx.C.Ensures {
		if c.Label == o.Label {
			clause = c
		}
	}
	if clause == nil {
		return "", "contract clause not found"
	}
	g.model = parseModel(o.Model)
	if len(g.model) == 0 {
		return "", "model could not be parsed"
	}
	fn := ctx.Fn
	names := paramNames(fn, fn.Signature, ctx.C)
	// parameters
	for i, p := range fn.Params {
		n := names[i]
		switch pt := p.Type().Underlying().(type) {
		case *types.Pointer:
			st, ok := pt.Elem().Underlying().(*types.Struct)
			_ = st
			if !ok {
				return "", "parameter " + n + ": pointer to non-struct"
			}
			id := g.valueOfParam(n)
			if id == "" {
				id = "p" + n
			}
			ob := g.objFor(pt.Elem(), id)
			g.params[n] = ob.name
		case *types.Basic:
			v := g.valueOfParam(n)
			if v == "" {
				v = "0"
			}
			if pt.Info()&types.IsBoolean != 0 {
				if v != "true" {
					v = "false"
				}
				g.params[n] = v
			} else if pt.Info()&types.IsInteger != 0 {
				g.params[n] = fmt.Sprintf("%s(%s)", g.goType(p.Type()), v)
			} else {
				return "", "parameter " + n + " of type " + p.Type().String()
			}
		default:
			return "", "parameter " + n + " of type " + p.Type().String()
		}
	}
	// heap facts from the model
	var keys []string
	for k := range g.model {
		keys = append(keys, k)
	}
	sort.Strings(keys)
	progress := true
	done := map[string]bool{}
	for progress {
		progress = false
		for _, k := range keys {
			if done[k] {
				continue
			}
			heap, arg, ok := splitSelect(k)
			if !ok || !strings.HasPrefix(heap, "H.") {
				done[k] = true
				continue
			}
			objID, known := g.termValue(arg)
			if !known {
				continue
			}
			done[k] = true
			progress = true
			// heap = H.<typeKey>.<leafpath>@0 ; typeKey may contain dots (pkg.Type)
			hn := strings.TrimSuffix(strings.TrimPrefix(heap, "H."), "@0")
			st, leaf := g.splitHeapName(hn)
			if st == nil {
				continue
			}
			ob := g.objFor(st, objID)
			ob.field[leaf] = g.model[k]
		}
	}
	// emit
	var b strings.Builder
	fmt.Fprintf(&b, "package %s\n\n", pkgName(ctx))
	fmt.Fprintf(&b, "// Generated by govc: replay of obligation\n//   %s\n//   path: %s\n// on the real code with the solver's counterexample.\n\n", o.Name, o.Path)
	b.WriteString("import (\n\t\"fmt\"\n\t\"testing\"\n)\n\n")
	b.WriteString("func TestVerifReplay(t *testing.T) {\n")
	for _, ob := range g.order {
		fmt.Fprintf(&b, "\t%s := &%s{}\n", ob.name, g.goType(ob.typ))
	}
	for _, ob := range g.order {
		st := ob.typ.Underlying().(*types.Struct)
		var leaves []string
		for l := range ob.field {
			leaves = append(leaves, l)
		}
		sort.Strings(leaves)
		for _, l := range leaves {
			stmt := g.assign(ob, st, l, ob.field[l])
			if stmt != "" {
				fmt.Fprintf(&b, "\t%s\n", stmt)
			}
		}
	}
	// realizers from the prelude (make the objects usable by the real code)
	for _, ob := range g.order {
		fmt.Fprintf(&b, "\tverifRealize(t, %s)\n", ob.name)
	}
	// the call
	var args []string
	for i := range fn.Params {
		args = append(args, g.params[names[i]])
	}
	// old() values and the postcondition
	cg := &condGen{g: g, names: names}
	post, err := cg.compile(clause.Expr)
	if err != nil {
		return "", "postcondition not executable: " + err.Error()
	}
	// the candidate input must satisfy the function's precondition (models of the relaxed query
	// may not): evaluate every requires clause that has an executable form
	for _, rq := range ctx.C.Requires {
		pg := &condGen{g: g, names: names}
		pre, perr := pg.compile(rq.Expr)
		if perr != nil || len(pg.olds) > 0 {
			fmt.Fprintf(&b, "\t// requires not executable, not checked: %s\n", strings.ReplaceAll(rq.Src, "\n", " "))
			continue
		}
		fmt.Fprintf(&b, "\tif !(%s) {\n\t\tfmt.Println(\"VERIF-REPLAY: HOLDS (the candidate input does not satisfy the precondition: %s)\")\n\t\treturn\n\t}\n", pre, strings.ReplaceAll(strings.ReplaceAll(rq.Src, "\\", ""), "\"", "'"))
	}
	for i, oe := range cg.olds {
		fmt.Fprintf(&b, "\told%d := %s\n", i, oe)
	}
	nres := fn.Signature.Results().Len()
	var lhs []string
	for i := 0; i < nres; i++ {
		lhs = append(lhs, fmt.Sprintf("result%d", i))
	}
	call := ""
	if fn.Signature.Recv() != nil {
		call = fmt.Sprintf("%s.%s(%s)", args[0], fn.Name(), strings.Join(args[1:], ", "))
	} else {
		call = fmt.Sprintf("%s(%s)", fn.Name(), strings.Join(args, ", "))
	}
	b.WriteString("\tpanicked := true\n\tfunc() {\n\t\tdefer func() {\n\t\t\tif v := recover(); v != nil {\n\t\t\t\tfmt.Println(\"the call panicked:\", v)\n\t\t\t}\n\t\t}()\n")
	if nres > 0 {
		for i := 0; i < nres; i++ {
			fmt.Fprintf(&b, "\t\tvar r%d %s\n", i, g.goType(fn.Signature.Results().At(i).Type()))
		}
		var rl []string
		for i := 0; i < nres; i++ {
			rl = append(rl, fmt.Sprintf("r%d", i))
		}
		fmt.Fprintf(&b, "\t\t%s = %s\n", strings.Join(rl, ", "), call)
		for i := 0; i < nres; i++ {
			fmt.Fprintf(&b, "\t\tverifResult%d = r%d\n", i, i)
		}
	} else {
		fmt.Fprintf(&b, "\t\t%s\n", call)
	}
	b.WriteString("\t\tpanicked = false\n\t}()\n")
	b.WriteString("\tif panicked {\n\t\tfmt.Println(\"VERIF-REPLAY: HOLDS (the call did not return normally, the postcondition does not apply)\")\n\t\treturn\n\t}\n")
	for i := 0; i < nres; i++ {
		fmt.Fprintf(&b, "\tresult%d := verifResult%d.(%s)\n\t_ = result%d\n", i, i, g.goType(fn.Signature.Results().At(i).Type()), i)
	}
	fmt.Fprintf(&b, "\tok := %s\n", post)
	fmt.Fprintf(&b, "\tfmt.Printf(\"postcondition [%s] %%v\\n\", ok)\n", clause.Label)
	b.WriteString("\tif !ok {\n\t\tfmt.Println(\"VERIF-REPLAY: VIOLATED\")\n\t\tt.Fatal(\"postcondition violated on the real code\")\n\t}\n\tfmt.Println(\"VERIF-REPLAY: HOLDS\")\n}\n\n")
	for i := 0; i < nres; i++ {
		fmt.Fprintf(&b, "var verifResult%d interface{}\n", i)
	}
	src := b.String()
	// interface-typed results cannot be asserted from a nil interface{}: handle error results
	for i := 0; i < nres; i++ {
		rt := fn.Signature.Results().At(i).Type()
		if isInterface(rt) {
			old := fmt.Sprintf("\tresult%d := verifResult%d.(%s)\n", i, i, g.goType(rt))
			nw := fmt.Sprintf("\tvar result%d %s\n\tif verifResult%d != nil {\n\t\tresult%d = verifResult%d.(%s)\n\t}\n", i, g.goType(rt), i, i, i, g.goType(rt))
			src = strings.Replace(src, old, nw, 1)
		}
	}
	return src, ""
}

func (g *replayGen) valueOfParam(name string) string {
	for k, v := range g.model {
		if strings.HasPrefix(k, "in."+name+"!") {
			if iv, ok := smtInt(v); ok {
				return iv
			}
			return v
		}
	}
	return ""
}

// termValue: the model value of an object term (parameter or nested select).
func (g *replayGen) termValue(t string) (string, bool) {
	if v, ok := g.model[t]; ok {
		if iv, ok := smtInt(v); ok {
			return iv, true
		}
	}
	if strings.HasPrefix(t, "in.") {
		n := t[3:]
		if i := strings.Index(n, "!"); i > 0 {
			n = n[:i]
		}
		if v := g.valueOfParam(n); v != "" {
			return v, true
		}
		return "p" + n, true
	}
	return "", false
}

// splitHeapName: "raft.storage.configs.Latest.Index" -> (struct type storage, "configs.Latest.Index")
func (g *replayGen) splitHeapName(hn string) (types.Type, string) {
	parts := strings.Split(hn, ".")
	for i := len(parts) - 1; i >= 1; i-- {
		k := strings.Join(parts[:i], ".")
		if st := g.e.namedStruct(smtName(k)); st != nil {
			return st, strings.Join(parts[i:], ".")
		}
	}
	return nil, ""
}

// assign produces a Go statement setting one leaf of an object from its model value.
func (g *replayGen) assign(ob *replayObj, st *types.Struct, leaf, val string) string {
	// walk the leaf path through nested structs
	parts := strings.Split(leaf, ".")
	var t types.Type = st
	var goPath []string
	for pi, p := range parts {
		s, ok := t.Underlying().(*types.Struct)
		if !ok {
			return ""
		}
		found := false
		for i := 0; i < s.NumFields(); i++ {
			if s.Field(i).Name() == p {
				t = s.Field(i).Type()
				goPath = append(goPath, p)
				found = true
				break
			}
		}
		if !found {
			// interface / slice leaf names (itag, ipay, sarr ...): not synthesised
			_ = pi
			return ""
		}
	}
	lhs := ob.name + "." + strings.Join(goPath, ".")
	switch u := t.Underlying().(type) {
	case *types.Basic:
		if u.Info()&types.IsBoolean != 0 {
			return fmt.Sprintf("%s = %s", lhs, val)
		}
		if u.Info()&types.IsInteger != 0 {
			if iv, ok := smtInt(val); ok {
				return fmt.Sprintf("%s = %s", lhs, intLitFor(iv, u))
			}
		}
	case *types.Pointer:
		if _, ok := u.Elem().Underlying().(*types.Struct); ok {
			if iv, ok := smtInt(val); ok {
				if iv == "0" {
					return fmt.Sprintf("%s = nil", lhs)
				}
				target := g.objFor(u.Elem(), iv)
				return fmt.Sprintf("%s = %s", lhs, target.name)
			}
		}
	}
	return ""
}

func intLitFor(v string, b *types.Basic) string {
	// values of unsigned types are non-negative in the model; large ones need no suffix in Go
	return v
}

// ---- compiling a spec expression to Go -------------------------------------------------

type condGen struct {
	g     *replayGen
	names []string
	olds  []string
	inOld bool
}

func (c *condGen) compile(e ast.Expr) (s string, err error) {
	defer func() {
		if r := recover(); r != nil {
			if se, ok := r.(specErr); ok {
				s, err = "", fmt.Errorf("%s", se.msg)
				return
			}
			panic(r)
		}
	}()
	return c.expr(e, map[string]string{}), nil
}

func (c *condGen) bad(format string, a ...interface{}) {
	panic(specErr{fmt.Sprintf(format, a...)})
}

func (c *condGen) expr(e ast.Expr, env map[string]string) string {
	switch n := e.(type) {
	case *ast.ParenExpr:
		return "(" + c.expr(n.X, env) + ")"
	case *ast.BasicLit:
		return n.Value
	case *ast.Ident:
		if v, ok := env[n.Name]; ok {
			return v
		}
		if v, ok := c.g.params[n.Name]; ok {
			return v
		}
		return n.Name // constants, result0, nil, true ...
	case *ast.UnaryExpr:
		return n.Op.String() + "(" + c.expr(n.X, env) + ")"
	case *ast.BinaryExpr:
		return "(" + c.expr(n.X, env) + " " + n.Op.String() + " " + c.expr(n.Y, env) + ")"
	case *ast.SelectorExpr:
		return c.expr(n.X, env) + "." + n.Sel.Name
	case *ast.CallExpr:
		id, ok := n.Fun.(*ast.Ident)
		if !ok {
			c.bad("call %s", types.ExprString(n))
		}
		switch id.Name {
		case "implies":
			return "(!(" + c.expr(n.Args[0], env) + ") || (" + c.expr(n.Args[1], env) + "))"
		case "old":
			if c.inOld {
				return c.expr(n.Args[0], env)
			}
			c.inOld = true
			v := c.expr(n.Args[0], env)
			c.inOld = false
			c.olds = append(c.olds, v)
			return fmt.Sprintf("old%d", len(c.olds)-1)
		case "forall", "exists", "forallr", "existsr", "lam", "cntv", "cntge", "scge":
			c.bad("quantified / set-valued postcondition (%s)", id.Name)
		}
		if pf, ok := c.g.e.Specs.Pures[id.Name]; ok {
			// a hand-written executable twin in the prelude?
			if preludeHas(c.g, "verifPure_"+id.Name) {
				var as []string
				for _, a := range n.Args {
					as = append(as, c.expr(a, env))
				}
				return fmt.Sprintf("verifPure_%s(%s)", id.Name, strings.Join(as, ", "))
			}
			// otherwise expand the definition
			nenv := map[string]string{}
			for i, p := range pf.Params {
				nenv[p] = "(" + c.expr(n.Args[i], env) + ")"
			}
			return "(" + c.expr(pf.Body.Expr, nenv) + ")"
		}
		c.bad("spec function %s has no executable form", id.Name)
	}
	c.bad("expression %s", types.ExprString(e))
	return ""
}

var preludeCache = map[string]string{}

func preludeHas(g *replayGen, fn string) bool {
	p := filepath.Join("/verif/replay", "prelude_"+pkgName(g.ctx)+"_test.go")
	src, ok := preludeCache[p]
	if !ok {
		b, _ := os.ReadFile(p)
		src = string(b)
		preludeCache[p] = src
	}
	return strings.Contains(src, "func "+fn+"(")
}

var _ = ssa.NaiveForm
