package vc

import (
	"fmt"
	"go/ast"
	"go/token"
	"go/types"
	"os"
	"path/filepath"
	"sort"
	"strings"

	"golang.org/x/tools/go/packages"
	"golang.org/x/tools/go/ssa"
	"golang.org/x/tools/go/ssa/ssautil"
)

const ModPath = "github.com/santhosh-tekuri/raft"

type Engine struct {
	RepoDir string
	Fset    *token.FileSet
	Prog    *ssa.Program
	Pkgs    []*packages.Package
	SSAPkg  map[string]*ssa.Package // by import path
	TPkg    map[string]*types.Package
	Specs   *Specs
	Funcs   map[string]*ssa.Function // canonical key -> function
	FuncAST map[*ssa.Function]ast.Node

	typeTags map[string]int
	tagTypes []types.Type

	condText map[token.Pos]string // ssa position of an expression -> source text
	Verbose  bool
}

func CanonKey(fn *ssa.Function) string {
	s := fn.String()
	s = strings.ReplaceAll(s, ModPath+"/", "")
	s = strings.ReplaceAll(s, ModPath+".", "")
	return s
}

func canonTypeString(t types.Type) string {
	s := types.TypeString(t, nil)
	s = strings.ReplaceAll(s, ModPath+"/", "")
	s = strings.ReplaceAll(s, ModPath+".", "")
	return s
}

// Load type-checks the repository's packages (with the verif tag) and builds SSA.
func Load(repoDir string) (*Engine, error) {
	cfg := &packages.Config{
		Mode:       packages.LoadAllSyntax,
		Dir:        repoDir,
		BuildFlags: []string{"-tags=verif"},
		Env:        append(os.Environ(), "GOFLAGS=-mod=mod", "GOPROXY=off", "GOSUMDB=off", "GOTOOLCHAIN=local"),
	}
	pkgs, err := packages.Load(cfg, ".", "./log", "./mmap")
	if err != nil {
		return nil, err
	}
	var errs []string
	packages.Visit(pkgs, nil, func(p *packages.Package) {
		if strings.HasPrefix(p.PkgPath, ModPath) {
			for _, e := range p.Errors {
				errs = append(errs, e.Error())
			}
		}
	})
	if len(errs) > 0 {
		return nil, fmt.Errorf("package errors: %s", strings.Join(errs, "; "))
	}
	prog, _ := ssautil.AllPackages(pkgs, ssa.GlobalDebug)
	prog.Build()
	e := &Engine{
		RepoDir:  repoDir,
		Fset:     pkgs[0].Fset,
		Prog:     prog,
		Pkgs:     pkgs,
		SSAPkg:   map[string]*ssa.Package{},
		TPkg:     map[string]*types.Package{},
		Specs:    NewSpecs(),
		Funcs:    map[string]*ssa.Function{},
		typeTags: map[string]int{},
		condText: map[token.Pos]string{},
	}
	e.tagTypes = append(e.tagTypes, nil) // tag 0 = nil interface
	for _, p := range prog.AllPackages() {
		e.SSAPkg[p.Pkg.Path()] = p
		e.TPkg[p.Pkg.Path()] = p.Pkg
	}
	for fn := range ssautil.AllFunctions(prog) {
		if fn.Synthetic != "" && fn.Pkg == nil {
			// wrappers/thunks: keep by name too, harmless
		}
		e.Funcs[CanonKey(fn)] = fn
	}
	// contract files
	for _, p := range pkgs {
		if !strings.HasPrefix(p.PkgPath, ModPath) {
			continue
		}
		for _, f := range p.GoFiles {
			if b := filepath.Base(f); strings.HasPrefix(b, "verif_contracts") && strings.HasSuffix(b, ".go") {
				if err := e.Specs.ParseFile(f, p.PkgPath); err != nil {
					return nil, err
				}
			}
		}
		e.indexSource(p)
	}
	// register the type tags of all named types of the module deterministically
	var names []string
	named := map[string]types.Type{}
	for _, p := range pkgs {
		if !strings.HasPrefix(p.PkgPath, ModPath) {
			continue
		}
		sc := p.Types.Scope()
		for _, n := range sc.Names() {
			if tn, ok := sc.Lookup(n).(*types.TypeName); ok && !tn.IsAlias() {
				if _, isIface := tn.Type().Underlying().(*types.Interface); isIface {
					continue
				}
				k := canonTypeString(tn.Type())
				names = append(names, k)
				named[k] = tn.Type()
				names = append(names, "*"+k)
				named["*"+k] = types.NewPointer(tn.Type())
			}
		}
	}
	sort.Strings(names)
	for _, n := range names {
		e.tagOf(named[n])
	}
	return e, nil
}

// tagOf returns the interface type tag (a small positive integer) of a concrete type.
func (e *Engine) tagOf(t types.Type) int {
	k := canonTypeString(t)
	if id, ok := e.typeTags[k]; ok {
		return id
	}
	id := len(e.tagTypes)
	e.typeTags[k] = id
	e.tagTypes = append(e.tagTypes, t)
	return id
}

// indexSource records, for every expression of the package, the source text keyed by the
// position go/ssa reports for values built from it (used to name branch conditions).
func (e *Engine) indexSource(p *packages.Package) {
	for _, f := range p.Syntax {
		fname := e.Fset.Position(f.Pos()).Filename
		src, err := os.ReadFile(fname)
		if err != nil {
			continue
		}
		base := e.Fset.File(f.Pos()).Base()
		text := func(n ast.Node) string {
			s, t := int(n.Pos())-base, int(n.End())-base
			if s < 0 || t > len(src) || s > t {
				return ""
			}
			return strings.Join(strings.Fields(string(src[s:t])), " ")
		}
		ast.Inspect(f, func(n ast.Node) bool {
			switch x := n.(type) {
			case *ast.BinaryExpr:
				e.condText[x.OpPos] = text(x)
			case *ast.UnaryExpr:
				e.condText[x.OpPos] = text(x)
			case *ast.CallExpr:
				e.condText[x.Lparen] = text(x)
			case *ast.Ident:
				if _, ok := e.condText[x.NamePos]; !ok {
					e.condText[x.NamePos] = text(x)
				}
			case *ast.SelectorExpr:
				e.condText[x.Sel.NamePos] = text(x)
			case *ast.TypeAssertExpr:
				e.condText[x.Lparen] = text(x)
			case *ast.IndexExpr:
				e.condText[x.Lbrack] = text(x)
			}
			return true
		})
	}
}

// LookupFunc finds the SSA function for a contract key.
func (e *Engine) LookupFunc(key string) *ssa.Function {
	return e.Funcs[key]
}
