package vc

import (
	"fmt"
	"go/types"
	"runtime/debug"
	"sort"
	"strings"

	"golang.org/x/tools/go/ssa"
)

// VerifyFunc generates the obligations of one function under contract.
func (e *Engine) VerifyFunc(key string) (ctx *FnCtx) {
	ct := e.Specs.Contracts[key]
	fn := e.Funcs[key]
	ctx = &FnCtx{E: e, Fn: fn, C: ct, Key: key, decls: map[string]string{}, Notes: map[string]bool{},
		strLits: map[string]Term{}, maxPaths: 4000, Callees: map[string]bool{}, implAx: map[string]bool{}, wordAx: map[string]bool{}, lamCache: map[string]Term{}}
	if ct == nil {
		ctx.Errs = append(ctx.Errs, "no contract for "+key)
		return ctx
	}
	if fn == nil {
		ctx.Errs = append(ctx.Errs, "contract names unknown function "+key)
		return ctx
	}
	if len(fn.Blocks) == 0 {
		ctx.Errs = append(ctx.Errs, "function has no body: "+key)
		return ctx
	}
	ct.Used = true
	x := &exec{ctx: ctx, e: e, sentinels: map[string]*IfaceV{}, topFn: fn, pending: map[string]*pendingGroup{}, cellIDs: map[string]int{}}
	defer func() {
		if r := recover(); r != nil {
			switch u := r.(type) {
			case unsupportedErr:
				ctx.Errs = append(ctx.Errs, key+": "+u.Error())
			case specErr:
				ctx.Errs = append(ctx.Errs, key+": "+u.Error())
			default:
				ctx.Errs = append(ctx.Errs, fmt.Sprintf("%s: internal error: %v\n%s", key, r, debug.Stack()))
			}
		}
	}()
	st := &State{pcSet: map[string]bool{}, heap: map[string]Term{}, cells: map[int]Val{}, knownTags: map[string]int{}, lastCrash: map[string]string{}}
	st.W = ctx.declare("W@0", SInt)
	st.assume(Ge(st.W, Zero))
	names := paramNames(fn, fn.Signature, ct)
	if len(names) != len(fn.Params) {
		panic(specErr{fmt.Sprintf("%s: %d param names for %d params", key, len(names), len(fn.Params))})
	}
	x.topVars = map[string]specVal{}
	var args []Val
	for i, p := range fn.Params {
		v := x.freshVal(st, "in."+names[i], p.Type())
		if pv, ok := v.(*PtrV); ok && !ct.nilable(names[i]) {
			st.assume(Neq(pv.Obj, Zero))
		}
		args = append(args, v)
		x.topVars[names[i]] = specVal{V: v, T: p.Type()}
	}
	// a function literal verified on its own: its captured variables are further inputs (by reference,
	// as the closure sees them), named as in the enclosing function
	var bind []Val
	for _, fv := range fn.FreeVars {
		v := x.freshVal(st, "in."+fv.Name(), fv.Type())
		if pv, ok := v.(*PtrV); ok {
			st.assume(Neq(pv.Obj, Zero))
		}
		bind = append(bind, v)
		x.topVars[fv.Name()] = specVal{V: v, T: fv.Type()}
	}
	// spec axioms
	x.addSpecAxioms(st)
	nq := 0
	se := &specEnv{x: x, pkg: x.specPkg(ct), vars: x.topVars, st: st, cur: st, old: nil, nq: &nq, what: "requires of " + key}
	for _, r := range ct.Requires {
		st.assume(se.evalBool(r.Expr))
	}
	x.entry = &State{heap: map[string]Term{}, epoch: 0, cells: map[int]Val{}, W: st.W, pcSet: map[string]bool{}}
	ctx.entryPC = append([]Term(nil), st.pc...)
	x.pushFrame(st, fn, args, bind, x.finish)
	x.runBlock(st, fn.Blocks[0], nil)
	x.drainPending()
	// witness expressions (evaluated in the entry state) for counterexample extraction
	func() {
		defer func() { recover() }()
		scratch := &State{heap: map[string]Term{}, cells: map[int]Val{}, W: x.entry.W, pcSet: map[string]bool{}}
		wse := &specEnv{x: x, pkg: x.specPkg(ct), vars: x.topVars, st: scratch, cur: scratch, nq: &nq, what: "witness of " + key}
		for _, w := range ct.Witness {
			sv := wse.eval(w.Expr)
			v := wse.rval(sv)
			for i, t := range flattenAny(v, sv.T) {
				src := w.Src
				if i > 0 {
					src = fmt.Sprintf("%s#%d", w.Src, i)
				}
				ctx.Witness = append(ctx.Witness, WitnessExpr{Src: src, Term: t})
			}
		}
	}()
	return ctx
}

func flattenAny(v Val, t types.Type) []Term {
	if tt, ok := v.(Term); ok {
		return []Term{tt}
	}
	if t == nil {
		return nil
	}
	defer func() { recover() }()
	return flattenVal(v, t)
}

func (x *exec) addSpecAxioms(st *State) {
	for _, ax := range x.e.Specs.Axioms {
		nq := 0
		scratch := &State{heap: st.heap, cells: st.cells, W: st.W, pcSet: map[string]bool{}}
		se := &specEnv{x: x, pkg: x.e.TPkg[ax.Pkg], vars: map[string]specVal{}, st: scratch, cur: scratch, nq: &nq, what: "axiom " + ax.Label}
		x.ctx.Axioms = append(x.ctx.Axioms, se.evalBool(ax.Clause.Expr))
		x.ctx.note("axiom " + ax.Label + ": " + ax.Clause.Src)
	}
}

// FunctionsUnder returns the contract keys that carry a label of the property (or, for
// allSafety, every verified function).
func (e *Engine) FunctionsFor(prop string) []string {
	var out []string
	for _, k := range e.Specs.SortedContractKeys() {
		ct := e.Specs.Contracts[k]
		if ct.Trusted || ct.Inline {
			continue
		}
		if strings.HasPrefix(k, "var ") || (strings.Contains(k, "$") && len(ct.Ensures) == 0) {
			continue
		}
		if fn := e.Funcs[k]; fn == nil || len(fn.Blocks) == 0 {
			continue
		}
		// C15 (no self-inflicted failure): every function under contract contributes its
		// run-time-safety obligations
		if prop == "C15" || e.contractMentionsAny(ct, prop) {
			out = append(out, k)
		}
	}
	return out
}

func (e *Engine) contractMentionsAny(ct *Contract, prop string) bool {
	for p := range e.Specs.covers(prop) {
		if contractMentions(ct, p) {
			return true
		}
	}
	return false
}

func contractMentions(ct *Contract, prop string) bool {
	for _, p := range ct.Props {
		if p == prop {
			return true
		}
	}
	has := func(cs []*Clause) bool {
		for _, c := range cs {
			if labelHasProp(c.Label, prop) {
				return true
			}
		}
		return false
	}
	if has(ct.Ensures) || has(ct.PanicEnsures) || has(ct.Asserts) || has(ct.CrashInv) {
		return true
	}
	for _, l := range ct.Loops {
		if has(l.Invariants) {
			return true
		}
	}
	return false
}

var _ = ssa.NaiveForm

// ParamTable lists, for every function of the module that has a contract or a view, its parameter names as
// they are in the source now (receiver first): "file:line<TAB>key<TAB>a, b, c".
func (e *Engine) ParamTable() []string {
	var out []string
	add := func(ct *Contract) {
		fn := e.Funcs[ct.Key]
		if fn == nil {
			fn = e.Funcs[qualifyKey(ct.Key, ct.Pkg)]
		}
		if fn == nil || len(fn.Params) == 0 || len(fn.FreeVars) > 0 || !inModule(fn) || len(ct.ParamNames) > 0 {
			return
		}
		var names []string
		for _, p := range fn.Params {
			names = append(names, p.Name())
		}
		out = append(out, fmt.Sprintf("%s:%d\t%s\t%s", ct.File, ct.Line, ct.Key, strings.Join(names, ", ")))
	}
	for _, k := range e.Specs.SortedContractKeys() {
		add(e.Specs.Contracts[k])
	}
	seen := map[*Contract]bool{}
	for _, v := range e.Specs.Views {
		if !seen[v] {
			seen[v] = true
			add(v)
		}
	}
	sort.Strings(out)
	return out
}
