package vc

import (
	"fmt"
	"go/ast"
	"go/token"
	"go/types"

	"golang.org/x/tools/go/ssa"
)

func (x *exec) newCell(st *State, t types.Type, name string, site string, init Val) *Cell {
	// cell identity is stable across paths: allocation site + frame depth + occurrence
	key := fmt.Sprintf("%s/%d/%s", name, len(st.frames), site)
	occ := 0
	curID := 0
	for {
		k := fmt.Sprintf("%s#%d", key, occ)
		id, ok := x.cellIDs[k]
		if !ok {
			x.cellN++
			id = x.cellN
			x.cellIDs[k] = id
		}
		if _, used := st.cells[id]; !used {
			curID = id
			break
		}
		occ++
	}
	c := &Cell{ID: curID, T: t, Name: name}
	st.cells[c.ID] = init
	return c
}

// allocObject allocates a heap object of struct type t with zeroed fields.
func (x *exec) allocObject(st *State, t types.Type, init Val) *PtrV {
	ref := x.allocRef(st)
	p := &PtrV{Obj: ref, Root: t}
	if init == nil {
		init = zeroVal(t)
	}
	x.store(st, p, init)
	return p
}

func (x *exec) nilCheck(st *State, p *PtrV, pos token.Pos, what string) {
	if p.Cell != nil || p.Glob != nil || len(p.Path) > 0 || p.Elem {
		return
	}
	if c := x.e.Specs.Contracts[CanonKey(st.top().fn)]; c != nil && c.NoNilCheck {
		st.assume(Neq(p.Obj, Zero))
		return
	}
	x.check(st, "nil", what, Neq(p.Obj, Zero), pos)
}

func (x *exec) step(st *State, in ssa.Instruction) {
	fr := st.top()
	set := func(v ssa.Value, val Val) { fr.env[v] = val }
	switch ins := in.(type) {
	case *ssa.DebugRef:
		if ident := identOf(ins); ident != "" {
			v := x.get(st, ins.X)
			if ins.IsAddr {
				fr.names[ident] = v
				fr.nameAddr[ident] = true
			} else if !fr.nameAddr[ident] {
				// an address-taken variable keeps resolving through its cell: value
				// references (e.g. the right-hand side at its definition) would go stale
				fr.names[ident] = v
			}
		}
	case *ssa.Alloc:
		t := deref(ins.Type())
		if _, isStruct := t.Underlying().(*types.Struct); isStruct {
			set(ins, x.allocObject(st, t, nil))
		} else {
			c := x.newCell(st, t, ins.Comment, fmt.Sprintf("%p", ins), zeroVal(t))
			set(ins, &PtrV{Cell: c, Root: t})
			if ins.Comment != "" && ins.Comment != "varargs" && ins.Comment != "complit" {
				fr.names[ins.Comment] = fr.env[ins]
				fr.nameAddr[ins.Comment] = true
			}
		}
	case *ssa.FieldAddr:
		p, ok := x.get(st, ins.X).(*PtrV)
		if !ok {
			panic(unsupported("FieldAddr on non-pointer value"))
		}
		x.nilCheck(st, p, ins.Pos(), fieldName(deref(ins.X.Type()), ins.Field))
		np := *p
		np.Path = append(append([]int(nil), p.Path...), ins.Field)
		set(ins, &np)
	case *ssa.Field:
		sv, ok := x.get(st, ins.X).(*StructV)
		if !ok {
			panic(unsupported("Field on non-struct value"))
		}
		set(ins, sv.F[ins.Field])
	case *ssa.Extract:
		tv, ok := x.get(st, ins.Tuple).(TupleV)
		if !ok {
			panic(unsupported("Extract on non-tuple"))
		}
		set(ins, tv[ins.Index])
	case *ssa.Store:
		p, ok := x.get(st, ins.Addr).(*PtrV)
		if !ok {
			panic(unsupported("Store through non-pointer"))
		}
		x.nilCheck(st, p, ins.Pos(), "store")
		val := x.get(st, ins.Val)
		// gc reads plain local variables after the calls of a statement (see exec.go, Return)
		if ld, ok := ins.Val.(*ssa.UnOp); ok && ld.Op == token.MUL && ld.Block() == ins.Block() {
			if _, isAlloc := ld.X.(*ssa.Alloc); isAlloc {
				idx := -1
				for j, bi := range ins.Block().Instrs {
					if bi == in {
						idx = j
					}
				}
				if idx >= 0 && callBetween(ins.Block(), ld, idx) {
					if lp, isPtr := x.get(st, ld.X).(*PtrV); isPtr {
						val = x.load(st, lp)
					}
				}
			}
		}
		x.store(st, p, val)
	case *ssa.UnOp:
		x.unop(st, ins)
	case *ssa.BinOp:
		a, b := x.get(st, ins.X), x.get(st, ins.Y)
		set(ins, x.binop(st, ins.Op, a, b, ins.X.Type(), ins.Y.Type(), ins.Type(), ins.Pos()))
	case *ssa.ChangeType:
		v := x.get(st, ins.X)
		if sv, ok := v.(*StructV); ok {
			v = &StructV{T: ins.Type(), F: sv.F}
		}
		if pv, ok := v.(*PtrV); ok && isPointer(ins.Type()) {
			np := *pv
			if len(pv.Path) == 0 && pv.Cell == nil && pv.Glob == nil && !pv.Elem {
				np.Root = deref(ins.Type())
			}
			v = &np
		}
		set(ins, v)
	case *ssa.Convert:
		set(ins, x.convert(st, x.get(st, ins.X), ins.X.Type(), ins.Type()))
	case *ssa.ChangeInterface:
		set(ins, x.get(st, ins.X))
	case *ssa.MakeInterface:
		set(ins, x.makeInterface(st, x.get(st, ins.X), ins.X.Type()))
	case *ssa.TypeAssert:
		x.typeAssert(st, ins)
	case *ssa.MakeClosure:
		var bind []Val
		for _, b := range ins.Bindings {
			bind = append(bind, x.get(st, b))
		}
		set(ins, &ClosureV{Fn: ins.Fn.(*ssa.Function), Bind: bind})
	case *ssa.MakeMap:
		mt := ins.Type().Underlying().(*types.Map)
		set(ins, x.makeMap(st, mt))
	case *ssa.MakeChan:
		set(ins, x.allocRef(st))
	case *ssa.MakeSlice:
		n := x.get(st, ins.Len).(Term)
		c := x.get(st, ins.Cap).(Term)
		x.check(st, "bounds", "makeslice", And(Le(Zero, n), Le(n, c)), ins.Pos())
		arr := x.allocRef(st)
		et := ins.Type().Underlying().(*types.Slice).Elem()
		// zeroed elements
		for _, l := range leavesOf(et) {
			key := elemKey(et, l.Path)
			h := x.getHeap(st, key, ArrSort(SInt, ArrSort(SInt, l.Sort)))
			x.setHeap(st, key, Store(h, arr, constArray(ArrSort(SInt, l.Sort), zeroLeaf(l))), &arr)
		}
		set(ins, &SliceV{Arr: arr, Off: Zero, Len: n, Cap: c})
	case *ssa.MapUpdate:
		mt := ins.Map.Type().Underlying().(*types.Map)
		m := x.get(st, ins.Map).(Term)
		x.check(st, "nil", "map-write", Neq(m, Zero), ins.Pos())
		x.mapUpdate(st, mt, m, x.mapKeyTerm(x.get(st, ins.Key), mt), x.get(st, ins.Value))
	case *ssa.Lookup:
		x.lookup(st, ins)
	case *ssa.Range:
		switch u := ins.X.Type().Underlying().(type) {
		case *types.Map:
			m := x.get(st, ins.X).(Term)
			it := &MapIterV{Map: m, MapT: u, Visited: constArray(ArrSort(SInt, SBool), False)}
			c := x.newCell(st, nil, "iter", fmt.Sprintf("%p", ins), it)
			set(ins, &PtrV{Cell: c})
		default:
			panic(unsupported("range over " + ins.X.Type().String()))
		}
	case *ssa.Next:
		x.next(st, ins)
	case *ssa.IndexAddr:
		x.indexAddr(st, ins)
	case *ssa.Index:
		x.index(st, ins)
	case *ssa.Slice:
		x.slice(st, ins)
	case *ssa.Send:
		x.ctx.note("channel send in " + CanonKey(fr.fn) + " at " + x.posStr(ins.Pos()) + " modelled as no-op (T-go)")
		x.ghostAtChan(st, ins, nil, nil)
	default:
		panic(unsupported(fmt.Sprintf("instruction %T: %s", in, in)))
	}
}

func identOf(d *ssa.DebugRef) string {
	if id, ok := d.Expr.(*ast.Ident); ok {
		// go/ssa also emits DebugRefs for the selector identifier of field selections
		// (x.f): those are not local variables
		if v, ok := d.Object().(*types.Var); ok && !v.IsField() {
			return id.Name
		}
	}
	return ""
}

func fieldName(t types.Type, i int) string {
	if s, ok := t.Underlying().(*types.Struct); ok && i < s.NumFields() {
		return s.Field(i).Name()
	}
	return fmt.Sprintf("#%d", i)
}

func (x *exec) unop(st *State, ins *ssa.UnOp) {
	fr := st.top()
	v := x.get(st, ins.X)
	switch ins.Op {
	case token.MUL: // load
		p, ok := v.(*PtrV)
		if !ok {
			panic(unsupported("load through non-pointer"))
		}
		x.nilCheck(st, p, ins.Pos(), "load")
		fr.env[ins] = x.load(st, p)
	case token.NOT:
		fr.env[ins] = Not(v.(Term))
	case token.SUB:
		t := v.(Term)
		fr.env[ins] = x.wrap(Sub(Zero, t), ins.Type())
	case token.ARROW:
		// channel receive: an arbitrary value
		x.ctx.note("channel receive in " + CanonKey(fr.fn) + " at " + x.posStr(ins.Pos()) + " yields an arbitrary value (T-go)")
		et := ins.X.Type().Underlying().(*types.Chan).Elem()
		val := x.freshVal(st, "recv", et)
		if ins.CommaOk {
			fr.env[ins] = TupleV{val, x.ctx.fresh("recvok", SBool)}
		} else {
			fr.env[ins] = val
		}
		x.ghostAtChan(st, ins, nil, nil)
	case token.XOR:
		t := v.(Term)
		// ^x = -x-1 (signed), 2^n-1-x (unsigned)
		lo, hi, _ := intRange(ins.Type())
		_ = lo
		if b, _ := ins.Type().Underlying().(*types.Basic); b != nil {
			if _, signed := intBits(b); signed {
				fr.env[ins] = Sub(Sub(Zero, t), One)
			} else {
				fr.env[ins] = Sub(hi, t)
			}
		}
	default:
		panic(unsupported("unary op " + ins.Op.String()))
	}
}

// wrap reduces a mathematical integer to the range of Go type t (two's complement).
func (x *exec) wrap(v Term, t types.Type) Term {
	b, ok := t.Underlying().(*types.Basic)
	if !ok || b.Info()&types.IsInteger == 0 {
		return v
	}
	if lv, ok := litVal(v); ok {
		bits, signed := intBits(b)
		m := new(bigInt).Mod(lv, p2(bits))
		if signed && m.Cmp(p2(bits-1)) >= 0 {
			m.Sub(m, p2(bits))
		}
		return BigLit(m)
	}
	bits, signed := intBits(b)
	m := BigLit(p2(bits))
	if !signed {
		return app(SInt, "mod", v, m)
	}
	half := BigLit(p2(bits - 1))
	// ((v + 2^(n-1)) mod 2^n) - 2^(n-1)
	return Sub(app(SInt, "mod", Add(v, half), m), half)
}

// wrapAddSub is wrap for a value known to be within one modulus of the range.
func (x *exec) wrap1(v Term, t types.Type) Term {
	b, ok := t.Underlying().(*types.Basic)
	if !ok || b.Info()&types.IsInteger == 0 {
		return v
	}
	if _, ok := litVal(v); ok {
		return x.wrap(v, t)
	}
	bits, signed := intBits(b)
	m := BigLit(p2(bits))
	if !signed {
		return Ite(Ge(v, m), Sub(v, m), Ite(Lt(v, Zero), Add(v, m), v))
	}
	half := BigLit(p2(bits - 1))
	return Ite(Ge(v, half), Sub(v, m), Ite(Lt(v, Sub(Zero, half)), Add(v, m), v))
}

func (x *exec) binop(st *State, op token.Token, a, b Val, at, bt, rt types.Type, pos token.Pos) Val {
	// comparisons of composite values
	switch op {
	case token.EQL, token.NEQ:
		eq := x.valEq(st, a, b, at)
		if op == token.NEQ {
			return Not(eq)
		}
		return eq
	}
	ta, ok1 := a.(Term)
	tb, ok2 := b.(Term)
	if !ok1 || !ok2 {
		panic(unsupported(fmt.Sprintf("binop %s on %T, %T", op, a, b)))
	}
	basic, _ := at.Underlying().(*types.Basic)
	if basic != nil && basic.Info()&types.IsString != 0 {
		switch op {
		case token.ADD:
			x.ctx.declareFun("strcat", []Sort{SInt, SInt}, SInt)
			x.ctx.declareFun("strlen", []Sort{SInt}, SInt)
			r := app(SInt, "strcat", ta, tb)
			st.assume(Eq(app(SInt, "strlen", r), Add(app(SInt, "strlen", ta), app(SInt, "strlen", tb))))
			st.assume(Le(Zero, r))
			return r
		default:
			x.ctx.declareFun("strless", []Sort{SInt, SInt}, SBool)
			switch op {
			case token.LSS:
				return app(SBool, "strless", ta, tb)
			case token.GTR:
				return app(SBool, "strless", tb, ta)
			case token.LEQ:
				return Not(app(SBool, "strless", tb, ta))
			case token.GEQ:
				return Not(app(SBool, "strless", ta, tb))
			}
		}
		panic(unsupported("string op " + op.String()))
	}
	if basic != nil && basic.Info()&types.IsBoolean != 0 {
		switch op {
		case token.AND, token.LAND:
			return And(ta, tb)
		case token.OR, token.LOR:
			return Or(ta, tb)
		}
	}
	if basic != nil && basic.Info()&types.IsFloat != 0 {
		x.ctx.declareFun("fop."+smtName(op.String()), []Sort{SInt, SInt}, SInt)
		if rb, ok := rt.Underlying().(*types.Basic); ok && rb.Info()&types.IsBoolean != 0 {
			x.ctx.declareFun("fcmp."+smtName(op.String()), []Sort{SInt, SInt}, SBool)
			return app(SBool, "fcmp."+smtName(op.String()), ta, tb)
		}
		return app(SInt, "fop."+smtName(op.String()), ta, tb)
	}
	switch op {
	case token.LSS:
		return Lt(ta, tb)
	case token.LEQ:
		return Le(ta, tb)
	case token.GTR:
		return Gt(ta, tb)
	case token.GEQ:
		return Ge(ta, tb)
	case token.ADD:
		return x.wrap1(Add(ta, tb), rt)
	case token.SUB:
		return x.wrap1(Sub(ta, tb), rt)
	case token.MUL:
		return x.wrap(Mul(ta, tb), rt)
	case token.QUO, token.REM:
		if _, isLit := litVal(tb); !isLit {
			x.check(st, "div", "division by zero", Neq(tb, Zero), pos)
		} else if tb.S == "0" {
			x.check(st, "div", "division by zero", False, pos)
		}
		_, signed := intBits(basic)
		if !signed {
			if op == token.QUO {
				return app(SInt, "div", ta, tb)
			}
			return app(SInt, "mod", ta, tb)
		}
		// truncated division
		absA := Ite(Ge(ta, Zero), ta, Sub(Zero, ta))
		absB := Ite(Ge(tb, Zero), tb, Sub(Zero, tb))
		q := app(SInt, "div", absA, absB)
		sameSign := Eq(Ge(ta, Zero), Ge(tb, Zero))
		if op == token.QUO {
			return x.wrap1(Ite(sameSign, q, Sub(Zero, q)), rt)
		}
		r := app(SInt, "mod", absA, absB)
		return Ite(Ge(ta, Zero), r, Sub(Zero, r))
	case token.SHL:
		if k, ok := litVal(tb); ok && k.IsInt64() && k.Int64() < 64 {
			return x.wrap(Mul(ta, BigLit(p2(int(k.Int64())))), rt)
		}
	case token.SHR:
		if k, ok := litVal(tb); ok && k.IsInt64() && k.Int64() < 64 {
			if _, signed := intBits(basic); !signed {
				return app(SInt, "div", ta, BigLit(p2(int(k.Int64()))))
			}
			return app(SInt, "div", ta, BigLit(p2(int(k.Int64())))) // floor division = arithmetic shift
		}
	case token.AND:
		// masks of the form 2^k-1
		if k, ok := litVal(tb); ok {
			kk := new(bigInt).Add(k, bigOne)
			if kk.BitLen() > 0 && new(bigInt).And(kk, k).Sign() == 0 && k.Sign() > 0 {
				if _, signed := intBits(basic); !signed {
					return app(SInt, "mod", ta, BigLit(kk))
				}
			}
		}
	}
	// uninterpreted bit operation
	name := "bitop." + smtName(op.String())
	switch op {
	case token.AND:
		name = "bitop.and"
	case token.OR:
		name = "bitop.or"
	case token.XOR:
		name = "bitop.xor"
	case token.SHL:
		name = "bitop.shl"
	case token.SHR:
		name = "bitop.shr"
	case token.AND_NOT:
		name = "bitop.andnot"
	default:
		panic(unsupported("binary op " + op.String()))
	}
	x.ctx.declareFun(name, []Sort{SInt, SInt}, SInt)
	x.ctx.note("uninterpreted bit operation " + op.String() + " at " + x.posStr(pos))
	r := app(SInt, name, ta, tb)
	lo, hi, _ := intRange(rt)
	st.assume(And(Le(lo, r), Le(r, hi)))
	return r
}

// valEq is Go's == on two values of static type t.
func (x *exec) valEq(st *State, a, b Val, t types.Type) Term {
	switch av := a.(type) {
	case Term:
		switch bv := b.(type) {
		case Term:
			return Eq(av, bv)
		case *PtrV:
			return Eq(av, x.ptrTerm(bv))
		case *FuncV:
			return Eq(av, bv.T)
		}
	case *PtrV:
		switch bv := b.(type) {
		case *PtrV:
			if av.Cell != nil || bv.Cell != nil {
				if av.Cell != nil && bv.Cell != nil {
					return BoolLit(av.Cell.ID == bv.Cell.ID)
				}
				// local vs heap/nil: a local cell is never nil and never a heap object
				return False
			}
			return Eq(x.ptrTerm(av), x.ptrTerm(bv))
		case Term:
			if av.Cell != nil {
				return False
			}
			return Eq(x.ptrTerm(av), bv)
		}
	case *IfaceV:
		if bv, ok := b.(*IfaceV); ok {
			// the nil interface is tag 0 (its payload is irrelevant)
			if bv.Tag.S == "0" {
				return Eq(av.Tag, Zero)
			}
			if av.Tag.S == "0" {
				return Eq(bv.Tag, Zero)
			}
			return And(Eq(av.Tag, bv.Tag), Or(Eq(av.Tag, Zero), Eq(av.Pay, bv.Pay)))
		}
	case *SliceV:
		if bv, ok := b.(*SliceV); ok { // only comparison with nil is legal in Go
			if bv.Arr.S == "0" {
				return Eq(av.Arr, Zero)
			}
			if av.Arr.S == "0" {
				return Eq(bv.Arr, Zero)
			}
			return And(Eq(av.Arr, bv.Arr), Eq(av.Len, bv.Len))
		}
	case *StructV:
		if bv, ok := b.(*StructV); ok {
			ts1, ts2 := flattenVal(av, av.T), flattenVal(bv, av.T)
			var cs []Term
			for i := range ts1 {
				cs = append(cs, Eq(ts1[i], ts2[i]))
			}
			return And(cs...)
		}
	case *FuncV:
		switch bv := b.(type) {
		case *FuncV:
			return Eq(av.T, bv.T)
		case Term:
			return Eq(av.T, bv)
		}
	case *ClosureV:
		if bt, ok := b.(Term); ok && bt.S == "0" {
			return False
		}
		if bf, ok := b.(*FuncV); ok && bf.T.S == "0" {
			return False
		}
	}
	panic(unsupported(fmt.Sprintf("comparison of %T and %T", a, b)))
}

func (x *exec) ptrTerm(p *PtrV) Term {
	if p.Cell != nil || p.Glob != nil || len(p.Path) > 0 || p.Elem {
		panic(unsupported("interior/local pointer used as a value"))
	}
	return p.Obj
}

func (x *exec) convert(st *State, v Val, from, to types.Type) Val {
	fb, _ := from.Underlying().(*types.Basic)
	tb, _ := to.Underlying().(*types.Basic)
	if fb != nil && tb != nil {
		fi, ti := fb.Info()&types.IsInteger != 0, tb.Info()&types.IsInteger != 0
		switch {
		case fi && ti:
			t := v.(Term)
			flo, fhi, _ := intRange(from)
			tlo, thi, _ := intRange(to)
			fl, _ := litVal(flo)
			fh, _ := litVal(fhi)
			tl, _ := litVal(tlo)
			th, _ := litVal(thi)
			if fl.Cmp(tl) >= 0 && fh.Cmp(th) <= 0 {
				return t // widening
			}
			// within one modulus?
			tbits, _ := intBits(tb)
			fbits, _ := intBits(fb)
			if fbits == tbits {
				return x.wrap1(t, to)
			}
			return x.wrap(t, to)
		case fi && tb.Info()&types.IsString != 0:
			x.ctx.declareFun("strfromrune", []Sort{SInt}, SInt)
			return app(SInt, "strfromrune", v.(Term))
		case fb.Info()&types.IsString != 0 && tb.Info()&types.IsString != 0:
			return v
		default:
			// float conversions etc: opaque
			x.ctx.declareFun("conv."+typeKey(from)+"."+typeKey(to), []Sort{SInt}, SInt)
			r := app(SInt, "conv."+typeKey(from)+"."+typeKey(to), v.(Term))
			if ti {
				lo, hi, _ := intRange(to)
				st.assume(And(Le(lo, r), Le(r, hi)))
			}
			return r
		}
	}
	// string <-> []byte
	if fb != nil && fb.Info()&types.IsString != 0 {
		if _, ok := to.Underlying().(*types.Slice); ok {
			s := v.(Term)
			x.ctx.declareFun("strlen", []Sort{SInt}, SInt)
			x.ctx.declareFun("strbyte", []Sort{SInt, SInt}, SInt)
			n := app(SInt, "strlen", s)
			st.assume(Ge(n, Zero))
			arr := x.allocRef(st)
			key := elemKey(types.Typ[types.Uint8], "")
			h := x.getHeap(st, key, ArrSort(SInt, ArrSort(SInt, SInt)))
			content := x.ctx.fresh("bytesof", ArrSort(SInt, SInt))
			i := Term{"i!q", SInt}
			x.ctx.Axioms = append(x.ctx.Axioms) // nothing global
			st.assume(Forall([]Term{i}, Implies(And(Le(Zero, i), Lt(i, n)), Eq(Select(content, i), app(SInt, "strbyte", s, i)))))
			x.setHeap(st, key, Store(h, arr, content), &arr)
			return &SliceV{Arr: arr, Off: Zero, Len: n, Cap: n}
		}
	}
	if tb != nil && tb.Info()&types.IsString != 0 {
		if sv, ok := v.(*SliceV); ok {
			x.ctx.declareFun("strlen", []Sort{SInt}, SInt)
			x.ctx.declareFun("strbyte", []Sort{SInt, SInt}, SInt)
			s := x.ctx.fresh("strof", SInt)
			st.assume(Le(Zero, s))
			st.assume(Eq(app(SInt, "strlen", s), sv.Len))
			key := elemKey(types.Typ[types.Uint8], "")
			h := x.getHeap(st, key, ArrSort(SInt, ArrSort(SInt, SInt)))
			i := Term{"i!q", SInt}
			st.assume(Forall([]Term{i}, Implies(And(Le(Zero, i), Lt(i, sv.Len)),
				Eq(app(SInt, "strbyte", s, i), Select(Select(h, sv.Arr), Add(sv.Off, i))))))
			st.assume(Implies(Eq(sv.Len, Zero), Eq(s, Zero)))
			return s
		}
	}
	if _, ok := to.Underlying().(*types.Pointer); ok {
		return v
	}
	if _, ok := to.Underlying().(*types.Slice); ok {
		if _, ok := v.(*SliceV); ok {
			return v
		}
	}
	panic(unsupported(fmt.Sprintf("conversion %s -> %s", from, to)))
}

func (x *exec) makeInterface(st *State, v Val, t types.Type) Val {
	tag := IntLit(int64(x.e.tagOf(t)))
	switch u := t.Underlying().(type) {
	case *types.Pointer:
		return &IfaceV{Tag: tag, Pay: x.ptrOrOpaque(st, v)}
	case *types.Basic:
		tv := v.(Term)
		if tv.Sort == SBool {
			return &IfaceV{Tag: tag, Pay: Ite(tv, One, Zero)}
		}
		return &IfaceV{Tag: tag, Pay: tv}
	case *types.Struct:
		_ = u
		p := x.allocObject(st, t, v)
		return &IfaceV{Tag: tag, Pay: p.Obj}
	case *types.Map, *types.Chan:
		return &IfaceV{Tag: tag, Pay: v.(Term)}
	case *types.Signature:
		switch fv := v.(type) {
		case *FuncV:
			return &IfaceV{Tag: tag, Pay: fv.T}
		}
		return &IfaceV{Tag: tag, Pay: x.ctx.fresh("ifacefn", SInt)}
	case *types.Slice:
		// box the slice header
		sv := v.(*SliceV)
		c := x.allocRef(st)
		for i, l := range leavesOf(t) {
			key := heapKey(t, l.Path)
			h := x.getHeap(st, key, ArrSort(SInt, l.Sort))
			x.setHeap(st, key, Store(h, c, []Term{sv.Arr, sv.Off, sv.Len, sv.Cap}[i]), &c)
		}
		return &IfaceV{Tag: tag, Pay: c}
	}
	panic(unsupported("MakeInterface from " + t.String()))
}

func (x *exec) ptrOrOpaque(st *State, v Val) Term {
	switch p := v.(type) {
	case *PtrV:
		if p.Cell != nil || p.Glob != nil || len(p.Path) > 0 || p.Elem {
			// a pointer to a local stored in an interface: opaque non-nil reference
			r := x.ctx.fresh("localref", SInt)
			st.assume(Gt(r, Zero))
			return r
		}
		return p.Obj
	case Term:
		return p
	}
	panic(unsupported(fmt.Sprintf("pointer value %T", v)))
}

// unbox turns an interface payload back into a value of concrete type t.
func (x *exec) unbox(st *State, pay Term, t types.Type) Val {
	switch t.Underlying().(type) {
	case *types.Pointer, *types.Struct:
		// the object behind an existing interface value was allocated earlier
		st.assume(And(Le(Zero, pay), Le(pay, st.W)))
	}
	switch t.Underlying().(type) {
	case *types.Pointer:
		return &PtrV{Obj: pay, Root: deref(t)}
	case *types.Basic:
		if b := t.Underlying().(*types.Basic); b.Info()&types.IsBoolean != 0 {
			return Neq(pay, Zero)
		}
		return pay
	case *types.Struct:
		return x.load(st, &PtrV{Obj: pay, Root: t})
	case *types.Map, *types.Chan:
		return pay
	case *types.Slice:
		ls := leavesOf(t)
		ts := make([]Term, 4)
		for i, l := range ls {
			ts[i] = Select(x.getHeap(st, heapKey(t, l.Path), ArrSort(SInt, l.Sort)), pay)
			x.assumeLeafOwned(st, l, ts[i], pay)
		}
		return &SliceV{ts[0], ts[1], ts[2], ts[3]}
	case *types.Signature:
		return &FuncV{T: pay}
	}
	panic(unsupported("unbox to " + t.String()))
}

func (x *exec) implementsTerm(st *State, tag Term, it types.Type) Term {
	iface := it.Underlying().(*types.Interface)
	name := "implements." + typeKey(it)
	x.ctx.declareFun(name, []Sort{SInt}, SBool)
	if !x.ctx.implAx[name] {
		x.ctx.implAx[name] = true
		for id := 1; id < len(x.e.tagTypes); id++ {
			ct := x.e.tagTypes[id]
			x.ctx.Axioms = append(x.ctx.Axioms, Eq(app(SBool, name, IntLit(int64(id))), BoolLit(types.Implements(ct, iface))))
		}
	}
	return And(Neq(tag, Zero), app(SBool, name, tag))
}

func (x *exec) typeAssert(st *State, ins *ssa.TypeAssert) {
	fr := st.top()
	iv, ok := x.get(st, ins.X).(*IfaceV)
	if !ok {
		panic(unsupported("TypeAssert on non-interface"))
	}
	var okT Term
	var val Val
	if isInterface(ins.AssertedType) {
		if it := ins.AssertedType.Underlying().(*types.Interface); it.NumMethods() == 0 {
			okT = Neq(iv.Tag, Zero)
		} else {
			okT = x.implementsTerm(st, iv.Tag, ins.AssertedType)
		}
		val = iv
	} else {
		okT = Eq(iv.Tag, IntLit(int64(x.e.tagOf(ins.AssertedType))))
	}
	if ins.CommaOk {
		if val == nil {
			// value is the zero value when the assertion fails; we only use it under ok
			val = x.unboxGuarded(st, iv.Pay, ins.AssertedType, okT)
		}
		fr.env[ins] = TupleV{val, okT}
		return
	}
	x.check(st, "typeassert", ins.AssertedType.String(), okT, ins.Pos())
	if val == nil {
		val = x.unbox(st, iv.Pay, ins.AssertedType)
	}
	fr.env[ins] = val
}

func (x *exec) unboxGuarded(st *State, pay Term, t types.Type, ok Term) Val {
	v := x.unbox(st, pay, t)
	z := zeroVal(t)
	ts, zs := flattenVal(v, t), flattenVal(z, t)
	out := make([]Term, len(ts))
	for i := range ts {
		out[i] = Ite(ok, ts[i], zs[i])
	}
	return unflattenVal(out, t)
}

func (x *exec) lookup(st *State, ins *ssa.Lookup) {
	fr := st.top()
	switch u := ins.X.Type().Underlying().(type) {
	case *types.Map:
		m := x.get(st, ins.X).(Term)
		k := x.mapKeyTerm(x.get(st, ins.Index), u)
		v, has := x.mapLookup(st, u, m, k)
		if ins.CommaOk {
			fr.env[ins] = TupleV{v, has}
		} else {
			fr.env[ins] = v
		}
	case *types.Basic: // string index
		s := x.get(st, ins.X).(Term)
		i := x.get(st, ins.Index).(Term)
		x.ctx.declareFun("strlen", []Sort{SInt}, SInt)
		x.ctx.declareFun("strbyte", []Sort{SInt, SInt}, SInt)
		x.check(st, "bounds", "string index", And(Le(Zero, i), Lt(i, app(SInt, "strlen", s))), ins.Pos())
		b := app(SInt, "strbyte", s, i)
		st.assume(And(Le(Zero, b), Le(b, IntLit(255))))
		fr.env[ins] = b
	default:
		panic(unsupported("Lookup on " + ins.X.Type().String()))
	}
}

func (x *exec) next(st *State, ins *ssa.Next) {
	fr := st.top()
	if ins.IsString {
		panic(unsupported("range over string"))
	}
	p := x.get(st, ins.Iter).(*PtrV)
	it := st.cells[p.Cell.ID].(*MapIterV)
	has := x.mapHas(st, it.MapT, it.Map)
	ok := x.ctx.fresh("next.ok", SBool)
	k := x.ctx.fresh("next.key", SInt)
	for _, l := range leavesOf(it.MapT.Key()) {
		x.assumeLeaf(st, l, k)
	}
	st.assume(Implies(ok, And(Select(has, k), Not(Select(it.Visited, k)))))
	q := Term{"k!q", SInt}
	st.assume(Implies(Not(ok), Forall([]Term{q}, Implies(Select(has, q), Select(it.Visited, q)))))
	v, _ := x.mapLookup(st, it.MapT, it.Map, k)
	x.useSetLib()
	st.assume(Le(app(SInt, "card", it.Visited), BigLit(p2(48)))) // physical bound on iterations
	// set arithmetic: if the visited keys are keys of the map, then with the new key k there are
	// still at most card(keys) of them (c is a witness of "visited is not a subset of keys")
	wit := x.ctx.fresh("subwit", SInt)
	st.assume(Implies(ok, Or(And(Select(it.Visited, wit), Not(Select(has, wit))),
		Le(app(SInt, "card", Store(it.Visited, k, True)), app(SInt, "card", has)))))
	nit := &MapIterV{Map: it.Map, MapT: it.MapT, Visited: Ite(ok, Store(it.Visited, k, True), it.Visited)}
	x.setCell(st, p.Cell.ID, nit)
	fr.env[ins] = TupleV{ok, k, v}
	fr.names["$lastkey"] = k
}

func (x *exec) indexAddr(st *State, ins *ssa.IndexAddr) {
	fr := st.top()
	base := x.get(st, ins.X)
	i := x.get(st, ins.Index).(Term)
	switch b := base.(type) {
	case *SliceV:
		x.check(st, "bounds", "index", And(Le(Zero, i), Lt(i, b.Len)), ins.Pos())
		et := ins.X.Type().Underlying().(*types.Slice).Elem()
		fr.env[ins] = &PtrV{Obj: b.Arr, Elem: true, Idx: Add(b.Off, i), Root: et}
	case *PtrV: // pointer to array
		at, ok := deref(ins.X.Type()).Underlying().(*types.Array)
		if !ok {
			panic(unsupported("IndexAddr on pointer to non-array"))
		}
		lv, isLit := litVal(i)
		if !isLit {
			panic(unsupported("array indexed by a non-constant"))
		}
		if lv.Sign() < 0 || lv.Int64() >= at.Len() {
			x.check(st, "bounds", "array index", False, ins.Pos())
		}
		np := *b
		np.Path = append(append([]int(nil), b.Path...), int(lv.Int64()))
		fr.env[ins] = &np
	default:
		panic(unsupported(fmt.Sprintf("IndexAddr on %T", base)))
	}
}

func (x *exec) index(st *State, ins *ssa.Index) {
	fr := st.top()
	base := x.get(st, ins.X)
	i := x.get(st, ins.Index).(Term)
	switch b := base.(type) {
	case *ArrayV:
		lv, ok := litVal(i)
		if !ok {
			panic(unsupported("array value indexed by non-constant"))
		}
		fr.env[ins] = b.E[lv.Int64()]
	default:
		panic(unsupported(fmt.Sprintf("Index on %T", base)))
	}
}

func (x *exec) slice(st *State, ins *ssa.Slice) {
	fr := st.top()
	base := x.get(st, ins.X)
	var lo, hi, mx *Term
	if ins.Low != nil {
		t := x.get(st, ins.Low).(Term)
		lo = &t
	}
	if ins.High != nil {
		t := x.get(st, ins.High).(Term)
		hi = &t
	}
	if ins.Max != nil {
		t := x.get(st, ins.Max).(Term)
		mx = &t
	}
	switch b := base.(type) {
	case *SliceV:
		l, h, m := Zero, b.Len, b.Cap
		if lo != nil {
			l = *lo
		}
		if hi != nil {
			h = *hi
		}
		if mx != nil {
			m = *mx
		}
		x.check(st, "bounds", "slice", And(Le(Zero, l), Le(l, h), Le(h, m), Le(m, b.Cap)), ins.Pos())
		fr.env[ins] = &SliceV{Arr: b.Arr, Off: Add(b.Off, l), Len: Sub(h, l), Cap: Sub(m, l)}
	case Term: // string
		x.ctx.declareFun("strlen", []Sort{SInt}, SInt)
		x.ctx.declareFun("substr", []Sort{SInt, SInt, SInt}, SInt)
		n := app(SInt, "strlen", b)
		l, h := Zero, n
		if lo != nil {
			l = *lo
		}
		if hi != nil {
			h = *hi
		}
		x.check(st, "bounds", "string slice", And(Le(Zero, l), Le(l, h), Le(h, n)), ins.Pos())
		r := app(SInt, "substr", b, l, h)
		st.assume(Eq(app(SInt, "strlen", r), Sub(h, l)))
		st.assume(Le(Zero, r))
		fr.env[ins] = r
	case *PtrV: // pointer to array
		at, ok := deref(ins.X.Type()).Underlying().(*types.Array)
		if !ok {
			panic(unsupported("Slice of pointer to non-array"))
		}
		if lo != nil {
			if lv, ok := litVal(*lo); !ok || lv.Sign() != 0 {
				panic(unsupported("slice of an array with a non-zero lower bound"))
			}
		}
		if hi != nil {
			if hv, ok := litVal(*hi); !ok || hv.Int64() != at.Len() {
				panic(unsupported("partial slice of an array"))
			}
		}
		if b.Cell != nil {
			// a local array (composite literal, varargs): its current elements are copied into a
			// fresh backing array (writes through the array pointer after this point are not
			// reflected: go/ssa emits the element stores before the slice instruction)
			if av, isArr := x.load(st, b).(*ArrayV); isArr {
				arr := x.allocRef(st)
				et := at.Elem()
				ok := true
				func() {
					defer func() {
						if r := recover(); r != nil {
							if _, isU := r.(unsupportedErr); isU {
								ok = false
								return
							}
							panic(r)
						}
					}()
					for i, ev := range av.E {
						x.store(st, &PtrV{Obj: arr, Elem: true, Idx: IntLit(int64(i)), Root: et}, ev)
					}
				}()
				if ok {
					n := IntLit(at.Len())
					fr.env[ins] = &SliceV{Arr: arr, Off: Zero, Len: n, Cap: n}
					return
				}
			}
		}
		sv := x.havocLike(st, &SliceV{}).(*SliceV)
		st.assume(Eq(sv.Len, IntLit(at.Len())))
		st.assume(Gt(sv.Arr, Zero))
		fr.env[ins] = sv
	default:
		panic(unsupported(fmt.Sprintf("Slice of %T", base)))
	}
}

func (x *exec) doSelect(st *State, ins *ssa.Select) {
	fr := st.top()
	x.ctx.note("select in " + CanonKey(fr.fn) + " at " + x.posStr(ins.Pos()) + ": arbitrary ready arm (T-go)")
	idx := x.ctx.fresh("select.idx", SInt)
	lo := Zero
	if !ins.Blocking {
		lo = IntLit(-1)
	}
	st.assume(And(Le(lo, idx), Lt(idx, IntLit(int64(len(ins.States))))))
	tv := TupleV{idx, x.ctx.fresh("select.recvok", SBool)}
	for _, s := range ins.States {
		if s.Dir == types.RecvOnly {
			et := s.Chan.Type().Underlying().(*types.Chan).Elem()
			tv = append(tv, x.freshVal(st, "select.recv", et))
		}
	}
	fr.env[ins] = tv
	var recvVals []Val
	if len(tv) > 2 {
		recvVals = tv[2:]
	}
	x.ghostAtChan(st, ins, &idx, recvVals)
}
