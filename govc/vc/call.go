package vc

import (
	"fmt"
	"go/ast"
	"go/token"
	"go/types"
	"sort"
	"strings"

	"golang.org/x/tools/go/ssa"
)

func (x *exec) mkCallSite(st *State, instr ssa.Instruction, c *ssa.CallCommon) *callSite {
	cs := &callSite{instr: instr, common: c, pos: instr.Pos()}
	if c.IsInvoke() {
		cs.fnVal = x.get(st, c.Value)
	} else {
		cs.fnVal = x.get(st, c.Value)
	}
	for _, a := range c.Args {
		cs.args = append(cs.args, x.get(st, a))
	}
	return cs
}

func (x *exec) doCallDeferred(st *State, cs *callSite, k func(*State, Val)) {
	x.doCallX(st, cs, true, k)
}

func (x *exec) doCall(st *State, cs *callSite, k func(*State, Val)) {
	x.doCallX(st, cs, false, k)
}

func inModule(fn *ssa.Function) bool {
	if fn.Pkg != nil {
		return strings.HasPrefix(fn.Pkg.Pkg.Path(), ModPath)
	}
	if fn.Parent() != nil {
		return inModule(fn.Parent())
	}
	if o := fn.Object(); o != nil && o.Pkg() != nil {
		return strings.HasPrefix(o.Pkg().Path(), ModPath)
	}
	return false
}

func resultType(sig *types.Signature) types.Type {
	switch sig.Results().Len() {
	case 0:
		return types.NewTuple()
	case 1:
		return sig.Results().At(0).Type()
	}
	return sig.Results()
}

func (x *exec) doCallX(st *State, cs *callSite, deferred bool, k func(*State, Val)) {
	c := cs.common
	sig := c.Signature()
	rt := resultType(sig)
	// builtins
	if b, ok := c.Value.(*ssa.Builtin); ok {
		k(st, x.builtin(st, b, cs, deferred))
		return
	}
	if c.IsInvoke() {
		x.invoke(st, cs, deferred, k)
		return
	}
	var fn *ssa.Function
	var bind []Val
	switch fv := cs.fnVal.(type) {
	case *ClosureV:
		fn, bind = fv.Fn, fv.Bind
	case *FuncV:
		if fv.Fn != nil {
			fn = fv.Fn
		} else if fv.Var != "" {
			if ct := x.e.Specs.Contracts["var "+fv.Var]; ct != nil {
				ct.Used = true
				x.contractCall(st, cs, nil, ct, "var "+fv.Var, sig, cs.args, k)
				return
			}
			x.unknownCall(st, cs, "function variable "+fv.Var, false, rt, k)
			return
		} else {
			x.unknownCall(st, cs, "function value", false, rt, k)
			return
		}
	default:
		x.unknownCall(st, cs, "function value", false, rt, k)
		return
	}
	x.callFunction(st, cs, fn, bind, cs.args, deferred, k)
}

func (x *exec) callFunction(st *State, cs *callSite, fn *ssa.Function, bind []Val, args []Val, deferred bool, k func(*State, Val)) {
	key := CanonKey(fn)
	x.ctx.Callees[key] = true
	rt := resultType(fn.Signature)
	ct := x.e.Specs.Contracts[key]
	if v := x.e.Specs.Views["fn:"+x.callerFn(st)+"|"+key]; v != nil {
		ct = v
		x.ctx.note("trusted abstract view of " + key + " used at a call site in " + x.callerFn(st))
	} else if v := x.e.Specs.Views[x.callerPkg(st)+"|"+key]; v != nil {
		ct = v
		x.ctx.note("trusted abstract view of " + key + " used at a call site in " + x.callerPkg(st))
	}
	if ct != nil {
		ct.Used = true
	}
	if ct != nil && !ct.Inline && fn.Parent() == nil {
		x.contractCall(st, cs, fn, ct, key, fn.Signature, args, k)
		return
	}
	autoInline := ct == nil && inModule(fn) && fn.Parent() == nil && fn.Synthetic == "" && x.smallStraightHelper(st, fn)
	if autoInline {
		x.ctx.note("uncontracted module helper inlined at its call site (loop-free, small): " + key)
	}
	if autoInline || fn.Parent() != nil || (ct != nil && ct.Inline) || (ct == nil && fn.Synthetic != "" && len(fn.Blocks) > 0 && inModule(fn)) {
		if len(fn.Blocks) == 0 {
			x.unknownCall(st, cs, key, inModule(fn), rt, k)
			return
		}
		// inline: closures have no identity of their own; "inline" contracts are accessors
		x.pushFrameAt(st, fn, args, bind, func(st *State, out Outcome) {
			if out.Panic {
				x.raise(st, out.PVal)
				return
			}
			switch len(out.Vals) {
			case 0:
				k(st, TupleV(nil))
			case 1:
				k(st, out.Vals[0])
			default:
				k(st, TupleV(out.Vals))
			}
		}, cs.pos)
		st.top().isDeferredCall = deferred
		x.runBlock(st, fn.Blocks[0], nil)
		return
	}
	x.unknownCall(st, cs, key, inModule(fn), rt, k)
}

// smallStraightHelper: a module function without contract that can be executed in place of its call: it has a
// body, no loop, no defer/go/select, at most 80 instructions, and is not already being executed (no recursion).
// Such a function is what "extract these lines into a helper" produces; running its body is exact, whereas
// treating it as an unknown callee would havoc the whole heap.
func (x *exec) smallStraightHelper(st *State, fn *ssa.Function) bool {
	if len(fn.Blocks) == 0 || len(st.frames) >= 8 {
		return false
	}
	for _, fr := range st.frames {
		if fr.fn == fn {
			return false
		}
	}
	// cycle detection (depth-first, three colours)
	colour := make([]int, len(fn.Blocks))
	var cyclic func(b *ssa.BasicBlock) bool
	cyclic = func(b *ssa.BasicBlock) bool {
		colour[b.Index] = 1
		for _, s := range b.Succs {
			if colour[s.Index] == 1 || (colour[s.Index] == 0 && cyclic(s)) {
				return true
			}
		}
		colour[b.Index] = 2
		return false
	}
	if cyclic(fn.Blocks[0]) {
		return false
	}
	n := 0
	for _, b := range fn.Blocks {
		for _, in := range b.Instrs {
			n++
			switch in.(type) {
			case *ssa.Defer, *ssa.Go, *ssa.Select, *ssa.RunDefers:
				return false
			}
		}
	}
	return n <= 80
}

// unknownCall: a callee without contract. Module functions havoc everything (sound);
// external functions and callbacks are assumed not to touch modelled state (listed).
func (x *exec) unknownCall(st *State, cs *callSite, what string, module bool, rt types.Type, k func(*State, Val)) {
	if module {
		x.ctx.note("uncontracted module callee (whole heap havocked): " + what)
		x.havocAll(st)
	} else {
		x.ctx.note("external/callback callee assumed not to modify modelled state: " + what)
		x.bumpW(st)
	}
	k(st, x.freshVal(st, "ret."+shortName(what), rt))
}

func shortName(s string) string {
	if i := strings.LastIndexAny(s, "./)"); i >= 0 && i+1 < len(s) {
		return s[i+1:]
	}
	return s
}

func (x *exec) invoke(st *State, cs *callSite, deferred bool, k func(*State, Val)) {
	c := cs.common
	iv, ok := cs.fnVal.(*IfaceV)
	if !ok {
		panic(unsupported("invoke on non-interface value"))
	}
	rt := resultType(c.Signature())
	x.check(st, "nil", "interface method "+c.Method.Name(), Neq(iv.Tag, Zero), cs.pos)
	// known dynamic type?
	if lv, ok := litVal(iv.Tag); ok && lv.IsInt64() && lv.Int64() > 0 && int(lv.Int64()) < len(x.e.tagTypes) {
		ct := x.e.tagTypes[lv.Int64()]
		sel := x.e.Prog.MethodSets.MethodSet(ct).Lookup(c.Method.Pkg(), c.Method.Name())
		if sel != nil {
			fn := x.e.Prog.MethodValue(sel)
			if fn != nil {
				recv := x.unbox(st, iv.Pay, ct)
				x.callFunction(st, cs, fn, nil, append([]Val{recv}, cs.args...), deferred, k)
				return
			}
		}
	}
	itn := canonTypeString(c.Value.Type())
	key := itn + "." + c.Method.Name()
	if ct := x.e.Specs.Contracts[key]; ct != nil {
		ct.Used = true
		x.contractCall(st, cs, nil, ct, key, c.Signature(), append([]Val{iv}, cs.args...), k)
		return
	}
	// a tag already fixed on this path by an earlier dispatch?
	if id, ok := st.knownTags[iv.Tag.S]; ok {
		x.dispatchTo(st, cs, iv, id, deferred, k)
		return
	}
	module := false
	if n, ok := c.Value.Type().(*types.Named); ok && n.Obj().Pkg() != nil && strings.HasPrefix(n.Obj().Pkg().Path(), ModPath) {
		module = !isCallbackIface(n.Obj().Name())
	}
	// closed world: an interface of the module with an unexported method can only be
	// implemented by types of the module; dispatch by case split over them.
	if module && !c.Method.Exported() {
		iface := c.Value.Type().Underlying().(*types.Interface)
		var ids []int
		for id := 1; id < len(x.e.tagTypes); id++ {
			if types.Implements(x.e.tagTypes[id], iface) && !forwardsIface(x.e.tagTypes[id], c.Value.Type()) {
				ids = append(ids, id)
			}
		}
		if len(ids) > 0 && len(ids) <= 8 {
			var alts []Term
			for _, id := range ids {
				alts = append(alts, Eq(iv.Tag, IntLit(int64(id))))
			}
			st.assume(Or(alts...)) // closed world
			x.ctx.note("interface " + itn + ": closed-world dispatch over its module implementers (forwarding wrappers embedding the interface itself are assumed not to nest)")
			for i, id := range ids {
				s2 := st
				if i < len(ids)-1 {
					s2 = st.clone()
					x.ctx.Paths++
				}
				s2.assume(Eq(iv.Tag, IntLit(int64(id))))
				s2.knownTags[iv.Tag.S] = id
				s2.path = append(s2.path, fmt.Sprintf("%s is %s", shortName(x.condDesc(c.Value)), canonTypeString(x.e.tagTypes[id])))
				x.dispatchTo(s2, cs, iv, id, deferred, k)
			}
			return
		}
	}
	x.unknownCall(st, cs, "interface method "+key, module, rt, k)
}

// forwardsIface: t (or *t) is a struct that embeds the interface itself, i.e. a pure
// forwarding wrapper. Such wrappers are assumed not to wrap each other (listed assumption).
func forwardsIface(t types.Type, it types.Type) bool {
	st, ok := deref(t).Underlying().(*types.Struct)
	if !ok {
		return false
	}
	for i := 0; i < st.NumFields(); i++ {
		if st.Field(i).Embedded() && types.Identical(st.Field(i).Type(), it) {
			return true
		}
	}
	return false
}

func (x *exec) dispatchTo(st *State, cs *callSite, iv *IfaceV, id int, deferred bool, k func(*State, Val)) {
	c := cs.common
	ct := x.e.tagTypes[id]
	sel := x.e.Prog.MethodSets.MethodSet(ct).Lookup(c.Method.Pkg(), c.Method.Name())
	if sel == nil {
		panic(unsupported("dispatch: no method " + c.Method.Name() + " on " + ct.String()))
	}
	fn := x.e.Prog.MethodValue(sel)
	if fn == nil {
		panic(unsupported("dispatch: abstract method"))
	}
	recv := x.unbox(st, iv.Pay, ct)
	x.callFunction(st, cs, fn, nil, append([]Val{recv}, cs.args...), deferred, k)
}

// user-supplied callback interfaces (T-cb)
func isCallbackIface(name string) bool {
	switch name {
	case "Logger", "Alerts", "FSM", "FSMState", "Resolver":
		return true
	}
	return false
}

func (x *exec) builtin(st *State, b *ssa.Builtin, cs *callSite, deferred bool) Val {
	args := cs.args
	switch b.Name() {
	case "len", "cap":
		switch v := args[0].(type) {
		case *SliceV:
			if b.Name() == "len" {
				return v.Len
			}
			return v.Cap
		case Term:
			at := cs.common.Args[0].Type()
			switch at.Underlying().(type) {
			case *types.Map:
				return x.mapLen(st, at, v)
			case *types.Chan:
				r := x.ctx.fresh("chanlen", SInt)
				st.assume(Ge(r, Zero))
				return r
			}
			x.ctx.declareFun("strlen", []Sort{SInt}, SInt)
			r := app(SInt, "strlen", v)
			st.assume(Ge(r, Zero))
			return r
		}
	case "delete":
		mt := cs.common.Args[0].Type().Underlying().(*types.Map)
		x.mapDelete(st, mt, args[0].(Term), x.mapKeyTerm(args[1], mt))
		return TupleV(nil)
	case "close":
		return TupleV(nil)
	case "print", "println":
		return TupleV(nil)
	case "recover":
		fr := st.top()
		if st.panicking != nil && fr.isDeferredCall {
			v := st.panicking
			st.panicking = nil
			st.recovered = true
			return v
		}
		return &IfaceV{Tag: Zero, Pay: Zero}
	case "append":
		return x.appendBuiltin(st, cs)
	case "copy":
		return x.copyBuiltin(st, cs)
	}
	panic(unsupported("builtin " + b.Name()))
}

func (x *exec) appendBuiltin(st *State, cs *callSite) Val {
	s, ok1 := cs.args[0].(*SliceV)
	t, ok2 := cs.args[1].(*SliceV)
	if !ok1 {
		panic(unsupported("append to non-slice"))
	}
	et := cs.common.Args[0].Type().Underlying().(*types.Slice).Elem()
	var tlen Term
	if ok2 {
		tlen = t.Len
	} else if sv, ok := cs.args[1].(Term); ok { // append([]byte, string...)
		x.ctx.declareFun("strlen", []Sort{SInt}, SInt)
		tlen = app(SInt, "strlen", sv)
	} else {
		panic(unsupported("append of non-slice"))
	}
	// result: a slice r with len = len(s)+len(t); contents: r[i] = s[i] (i < len s), r[len s + j] = t[j].
	// The backing array is fresh (over-approximation of "may reallocate": callers that rely on
	// aliasing after append are outside the subset).
	arr := x.allocRef(st)
	n := Add(s.Len, tlen)
	c := x.ctx.fresh("append.cap", SInt)
	st.assume(Ge(c, n))
	for _, l := range leavesOf(et) {
		key := elemKey(et, l.Path)
		h := x.getHeap(st, key, ArrSort(SInt, ArrSort(SInt, l.Sort)))
		content := x.ctx.fresh("append.content", ArrSort(SInt, l.Sort))
		i := Term{"i!qa", SInt}
		st.assume(Forall([]Term{i}, Implies(And(Le(Zero, i), Lt(i, s.Len)),
			Eq(Select(content, i), Select(Select(h, s.Arr), Add(s.Off, i))))))
		if ok2 {
			st.assume(Forall([]Term{i}, Implies(And(Le(Zero, i), Lt(i, t.Len)),
				Eq(Select(content, Add(s.Len, i)), Select(Select(h, t.Arr), Add(t.Off, i))))))
		} else {
			x.ctx.declareFun("strbyte", []Sort{SInt, SInt}, SInt)
			st.assume(Forall([]Term{i}, Implies(And(Le(Zero, i), Lt(i, tlen)),
				Eq(Select(content, Add(s.Len, i)), app(SInt, "strbyte", cs.args[1].(Term), i)))))
		}
		x.setHeap(st, key, Store(h, arr, content), &arr)
	}
	return &SliceV{Arr: arr, Off: Zero, Len: n, Cap: c}
}

func (x *exec) copyBuiltin(st *State, cs *callSite) Val {
	d, ok1 := cs.args[0].(*SliceV)
	if !ok1 {
		panic(unsupported("copy to non-slice"))
	}
	et := cs.common.Args[0].Type().Underlying().(*types.Slice).Elem()
	var slen Term
	s, ok2 := cs.args[1].(*SliceV)
	if ok2 {
		slen = s.Len
	} else if sv, ok := cs.args[1].(Term); ok {
		x.ctx.declareFun("strlen", []Sort{SInt}, SInt)
		slen = app(SInt, "strlen", sv)
	} else {
		panic(unsupported("copy from non-slice"))
	}
	n := Ite(Lt(d.Len, slen), d.Len, slen)
	nn := x.ctx.fresh("copy.n", SInt)
	st.assume(Eq(nn, n))
	for _, l := range leavesOf(et) {
		key := elemKey(et, l.Path)
		h := x.getHeap(st, key, ArrSort(SInt, ArrSort(SInt, l.Sort)))
		content := x.ctx.fresh("copy.content", ArrSort(SInt, l.Sort))
		i := Term{"i!qc", SInt}
		old := Select(h, d.Arr)
		var src Term
		if ok2 {
			src = Select(Select(h, s.Arr), Add(s.Off, Sub(i, d.Off)))
		} else {
			x.ctx.declareFun("strbyte", []Sort{SInt, SInt}, SInt)
			src = app(SInt, "strbyte", cs.args[1].(Term), Sub(i, d.Off))
		}
		st.assume(Forall([]Term{i}, Eq(Select(content, i),
			Ite(And(Le(d.Off, i), Lt(i, Add(d.Off, nn))), src, Select(old, i)))))
		if l.Sort == SInt && len(leavesOf(et)) == 1 {
			// words that lie entirely outside the copied range keep their value
			if _, isByte := et.Underlying().(*types.Basic); isByte {
				w := x.wordOf(content, i, 8)
				wo := x.wordOf(old, i, 8)
				st.assume(Forall([]Term{i}, Implies(Or(Le(Add(i, IntLit(8)), d.Off), Ge(i, Add(d.Off, nn))), Eq(w, wo))))
			}
		}
		x.setHeap(st, key, Store(h, d.Arr, content), &d.Arr)
	}
	return nn
}

// ---- contracts at call sites ---------------------------------------------------

func paramNames(fn *ssa.Function, sig *types.Signature, ct *Contract) []string {
	if len(ct.ParamNames) > 0 {
		return ct.ParamNames
	}
	var names []string
	if fn != nil {
		for _, p := range fn.Params {
			names = append(names, p.Name())
		}
		return names
	}
	if sig.Recv() != nil {
		names = append(names, "recv")
	}
	for i := 0; i < sig.Params().Len(); i++ {
		n := sig.Params().At(i).Name()
		if n == "" || n == "_" {
			n = fmt.Sprintf("arg%d", i)
		}
		names = append(names, n)
	}
	return names
}

func paramTypes(fn *ssa.Function, sig *types.Signature, nargs int) []types.Type {
	var ts []types.Type
	if fn != nil {
		for _, p := range fn.Params {
			ts = append(ts, p.Type())
		}
		return ts
	}
	if sig.Recv() != nil {
		ts = append(ts, sig.Recv().Type())
	}
	for i := 0; i < sig.Params().Len(); i++ {
		ts = append(ts, sig.Params().At(i).Type())
	}
	for len(ts) < nargs { // interface receiver not in signature
		ts = append([]types.Type{nil}, ts...)
	}
	return ts
}

func (x *exec) callerFn(st *State) string {
	fn := st.top().fn
	for fn.Parent() != nil {
		fn = fn.Parent()
	}
	return CanonKey(fn)
}

func (x *exec) callerPkg(st *State) string {
	fn := st.top().fn
	for fn.Parent() != nil {
		fn = fn.Parent()
	}
	if fn.Pkg != nil {
		return fn.Pkg.Pkg.Path()
	}
	if o := fn.Object(); o != nil && o.Pkg() != nil {
		return o.Pkg().Path()
	}
	return ""
}

func (x *exec) specPkg(ct *Contract) *types.Package {
	return x.e.TPkg[ct.Pkg]
}

func (x *exec) contractCall(st *State, cs *callSite, fn *ssa.Function, ct *Contract, key string, sig *types.Signature, args []Val, k func(*State, Val)) {
	x.ctx.Callees[key] = true
	names := paramNames(fn, sig, ct)
	ptypes := paramTypes(fn, sig, len(args))
	if len(names) != len(args) {
		panic(unsupported(fmt.Sprintf("contract %s: %d parameter names for %d arguments", key, len(names), len(args))))
	}
	vars := map[string]specVal{}
	// interior / local pointers are passed by copy-in / copy-out
	type copyOut struct {
		orig *PtrV
		tmp  *PtrV
	}
	var outs []copyOut
	for i, n := range names {
		a := args[i]
		if p, ok := a.(*PtrV); ok && (p.Cell != nil || len(p.Path) > 0 || p.Elem) && ptypes[i] != nil && isPointer(ptypes[i]) {
			t := deref(ptypes[i])
			cur := x.load(st, p)
			ref := x.allocRef(st)
			tmp := &PtrV{Obj: ref, Root: t}
			x.store(st, tmp, cur)
			outs = append(outs, copyOut{p, tmp})
			a = tmp
			args[i] = tmp
		}
		vars[n] = specVal{V: a, T: ptypes[i]}
	}
	nq := 0
	mkEnv := func(cur, old *State) *specEnv {
		return &specEnv{x: x, pkg: x.specPkg(ct), vars: vars, st: cur, cur: cur, old: old, nq: &nq, what: "contract " + key, atCall: x.e.Funcs[key]}
	}
	se := mkEnv(st, nil)
	// implicit: pointer parameters are non-nil
	for i, n := range names {
		if ptypes[i] != nil && isPointer(ptypes[i]) && !ct.nilable(n) {
			if p, ok := args[i].(*PtrV); ok && p.Cell == nil && p.Glob == nil {
				x.oblige(st, "pre", "", key+": "+n+" != nil", Neq(p.Obj, Zero), cs.pos)
			}
		}
	}
	for i, r := range ct.Requires {
		g := se.evalBool(r.Expr)
		lab := r.Label
		x.oblige(st, "pre", lab, fmt.Sprintf("%s.requires%d", key, i+1), g, cs.pos)
		st.assume(g)
	}
	finish := func(st *State, panicPath bool) Val {
		pre := &State{heap: copyHeap(st.heap), epoch: st.epoch, cells: st.cells, W: st.W, pcSet: map[string]bool{}}
		x.havocModifies(st, ct, mkEnv(st, nil))
		x.bumpW(st)
		rt := resultType(sig)
		res := x.freshVal(st, "ret."+shortName(key), rt)
		if !panicPath {
			switch rv := res.(type) {
			case TupleV:
				for i, v := range rv {
					vars[fmt.Sprintf("result%d", i)] = specVal{V: v, T: sig.Results().At(i).Type()}
				}
			default:
				vars["result0"] = specVal{V: res, T: rt}
			}
		}
		env := mkEnv(st, pre)
		cl := ct.Ensures
		if panicPath {
			cl = ct.PanicEnsures
		}
		for _, e := range cl {
			st.assume(env.evalBool(e.Expr))
		}
		for _, o := range outs {
			x.store(st, o.orig, x.load(st, o.tmp))
		}
		return res
	}
	if ct.MayPanic {
		x.ctx.Paths++
		st2 := st.clone()
		// rebuild vars for the clone: values are immutable terms, so sharing is fine
		finish(st2, true)
		tag := x.panicTag(ct)
		pv := &IfaceV{Tag: tag, Pay: x.ctx.fresh("panicval", SInt)}
		st2.path = append(st2.path, "panic-in:"+shortName(key))
		st2.storageFault = true
		x.raise(st2, pv)
		delete(vars, "result0")
	}
	res := finish(st, false)
	k(st, res)
}

func (ct *Contract) nilable(name string) bool {
	for _, n := range ct.Nilable {
		if n == name {
			return true
		}
	}
	return false
}

func (x *exec) panicTag(ct *Contract) Term {
	name := ct.PanicTag
	if name == "*" {
		t := x.ctx.fresh("panictag", SInt)
		return t
	}
	if name == "" {
		name = "OpError"
	}
	if id, ok := x.e.typeTags[name]; ok {
		return IntLit(int64(id))
	}
	panic(specErr{"maypanic: unknown type " + name})
}

func copyHeap(h map[string]Term) map[string]Term {
	n := make(map[string]Term, len(h))
	for k, v := range h {
		n[k] = v
	}
	return n
}

// modLoc is one modifiable location set: heap key + object (nil = every object).
type modLoc struct {
	key  string
	sort Sort
	obj  *Term
	ghostVar bool
}

// modLocs evaluates a modifies clause in the given (pre) state.
func (x *exec) modLocs(se *specEnv, cl *Clause) []modLoc {
	var out []modLoc
	e := cl.Expr
	// contents(m): all entries of a map / all elements of a slice's backing array
	if call, ok := e.(*ast.CallExpr); ok {
		if id, ok := call.Fun.(*ast.Ident); ok && id.Name == "allof" {
			// allof(i): every field of the object an interface value points to, whatever module
			// pointer type implementing the interface it holds
			sv := se.eval(call.Args[0])
			iv, ok := se.rval(sv).(*IfaceV)
			if !ok {
				se.fail("allof() needs an interface value")
			}
			iface, ok := sv.T.Underlying().(*types.Interface)
			if !ok {
				se.fail("allof(): static type is not an interface")
			}
			for id := 1; id < len(x.e.tagTypes); id++ {
				pt, isPtr := x.e.tagTypes[id].(*types.Pointer)
				if !isPtr || !types.Implements(pt, iface) {
					continue
				}
				if _, isStruct := pt.Elem().Underlying().(*types.Struct); !isStruct {
					continue
				}
				for _, l := range leavesOf(pt.Elem()) {
					o := iv.Pay
					out = append(out, modLoc{key: heapKey(pt.Elem(), l.Path), sort: ArrSort(SInt, l.Sort), obj: &o})
				}
			}
			return out
		}
		if id, ok := call.Fun.(*ast.Ident); ok && id.Name == "elems" {
			// elems(T): every element of every []T backing array
			tt := se.resolveType(exprString(call.Args[0]))
			if tt == nil {
				se.fail("elems() needs a type")
			}
			for _, l := range leavesOf(tt) {
				out = append(out, modLoc{key: elemKey(tt, l.Path), sort: ArrSort(SInt, ArrSort(SInt, l.Sort))})
			}
			return out
		}
		if id, ok := call.Fun.(*ast.Ident); ok && (id.Name == "contents" || id.Name == "all") {
			sv := se.eval(call.Args[0])
			switch id.Name {
			case "contents":
				switch u := sv.T.Underlying().(type) {
				case *types.Map:
					m := se.rval(sv).(Term)
					out = append(out, modLoc{key: mapKey(u, "has"), sort: ArrSort(SInt, ArrSort(SInt, SBool)), obj: &m})
					for _, l := range leavesOf(u.Elem()) {
						out = append(out, modLoc{key: mapKey(u, "v."+l.Path), sort: ArrSort(SInt, ArrSort(SInt, l.Sort)), obj: &m})
					}
					return out
				case *types.Slice:
					s := se.rval(sv).(*SliceV)
					for _, l := range leavesOf(u.Elem()) {
						out = append(out, modLoc{key: elemKey(u.Elem(), l.Path), sort: ArrSort(SInt, ArrSort(SInt, l.Sort)), obj: &s.Arr})
					}
					return out
				}
				se.fail("contents() of %s", sv.T)
			case "all":
				p, ok := se.rval(sv).(*PtrV)
				if !ok {
					se.fail("all() needs a pointer")
				}
				t := deref(sv.T)
				for _, l := range leavesOf(t) {
					o := p.Obj
					out = append(out, modLoc{key: heapKey(t, l.Path), sort: ArrSort(SInt, l.Sort), obj: &o})
				}
				for _, gf := range x.e.Specs.GhostFields {
					if gf.Owner == typeNameOf(t) {
						o := p.Obj
						gs, _ := ghostSort(gf.Type)
						out = append(out, modLoc{key: "G." + gf.Owner + "." + gf.Name, sort: ArrSort(SInt, gs), obj: &o})
					}
				}
				return out
			}
		}
	}
	if id, ok := e.(*ast.Ident); ok {
		if gv, ok := x.e.Specs.GhostVars[id.Name]; ok {
			s, _ := ghostSort(gv.Type)
			return []modLoc{{key: "GV." + gv.Name, sort: s, ghostVar: true}}
		}
	}
	// Type.field : every object's field
	if sel, ok := e.(*ast.SelectorExpr); ok {
		// pkg.Type.field
		if inner, ok := sel.X.(*ast.SelectorExpr); ok {
			if pid, ok := inner.X.(*ast.Ident); ok {
				if _, isVar := se.vars[pid.Name]; !isVar {
					if t := se.resolveType(pid.Name + "." + inner.Sel.Name); t != nil {
						if out := x.typeFieldLocs(se, t, inner.Sel.Name, sel.Sel.Name); out != nil {
							return out
						}
					}
				}
			}
		}
		if id, ok := sel.X.(*ast.Ident); ok {
			if _, isVar := se.vars[id.Name]; !isVar && se.pkg != nil {
				if _, isType := se.pkg.Scope().Lookup(id.Name).(*types.TypeName); !isType {
					if gf, ok := x.e.Specs.GhostFields[id.Name+"."+sel.Sel.Name]; ok {
						gs, _ := ghostSort(gf.Type)
						return []modLoc{{key: "G." + gf.Owner + "." + gf.Name, sort: ArrSort(SInt, gs)}}
					}
				}
				if tn, ok := se.pkg.Scope().Lookup(id.Name).(*types.TypeName); ok {
					if gf, ok := x.e.Specs.GhostFields[id.Name+"."+sel.Sel.Name]; ok {
						gs, _ := ghostSort(gf.Type)
						return []modLoc{{key: "G." + gf.Owner + "." + gf.Name, sort: ArrSort(SInt, gs)}}
					}
					st, ok := tn.Type().Underlying().(*types.Struct)
					if !ok {
						se.fail("modifies %s: not a struct type", id.Name)
					}
					for i := 0; i < st.NumFields(); i++ {
						if st.Field(i).Name() == sel.Sel.Name {
							for _, l := range leavesOf(st.Field(i).Type()) {
								out = append(out, modLoc{key: heapKey(tn.Type(), joinLeaf(st.Field(i).Name(), l.Path)), sort: ArrSort(SInt, l.Sort)})
							}
							return out
						}
					}
					se.fail("modifies %s.%s: no such field", id.Name, sel.Sel.Name)
				}
			}
		}
		// ghost field of an object?
		base := se.eval(sel.X)
		if gf, ok := x.e.Specs.GhostFields[typeNameOf(base.T)+"."+sel.Sel.Name]; ok {
			p, ok := se.rval(base).(*PtrV)
			if !ok {
				se.fail("ghost field owner must be a pointer")
			}
			o := p.Obj
			gs, _ := ghostSort(gf.Type)
			return []modLoc{{key: "G." + gf.Owner + "." + gf.Name, sort: ArrSort(SInt, gs), obj: &o}}
		}
	}
	sv := se.eval(e)
	if sv.Addr == nil {
		// maybe a ghost field reached through embedding: Select(arr, obj)
		if t, ok := sv.V.(Term); ok && strings.HasPrefix(t.S, "(select G.") {
			parts := strings.Fields(strings.TrimSuffix(strings.TrimPrefix(t.S, "(select "), ")"))
			_ = parts
		}
		se.fail("modifies clause %s does not denote a location", cl.Src)
	}
	p := sv.Addr
	if p.Cell != nil || p.Glob != nil {
		se.fail("modifies clause %s denotes a local", cl.Src)
	}
	t, prefix := pathType(p.Root, p.Path)
	for _, l := range leavesOf(t) {
		o := p.Obj
		if p.Elem {
			out = append(out, modLoc{key: elemKey(p.Root, joinLeaf(prefix, l.Path)), sort: ArrSort(SInt, ArrSort(SInt, l.Sort)), obj: &o})
		} else {
			out = append(out, modLoc{key: heapKey(p.Root, joinLeaf(prefix, l.Path)), sort: ArrSort(SInt, l.Sort), obj: &o})
		}
	}
	return out
}

// typeFieldLocs: every object's field (or ghost field) of a named struct type.
func (x *exec) typeFieldLocs(se *specEnv, t types.Type, tname, fname string) []modLoc {
	if gf, ok := x.e.Specs.GhostFields[tname+"."+fname]; ok {
		gs, _ := ghostSort(gf.Type)
		return []modLoc{{key: "G." + gf.Owner + "." + gf.Name, sort: ArrSort(SInt, gs)}}
	}
	st, ok := t.Underlying().(*types.Struct)
	if !ok {
		return nil
	}
	var out []modLoc
	for i := 0; i < st.NumFields(); i++ {
		if st.Field(i).Name() == fname {
			for _, l := range leavesOf(st.Field(i).Type()) {
				out = append(out, modLoc{key: heapKey(t, joinLeaf(fname, l.Path)), sort: ArrSort(SInt, l.Sort)})
			}
		}
	}
	return out
}

func (x *exec) havocModifies(st *State, ct *Contract, se *specEnv) {
	if ct.ModifiesAll {
		x.havocAll(st)
		return
	}
	var locs []modLoc
	for _, m := range ct.Modifies {
		locs = append(locs, x.modLocs(se, m)...)
	}
	for _, l := range locs {
		cur := x.getHeap(st, l.key, l.sort)
		switch {
		case l.ghostVar:
			x.setHeap(st, l.key, x.ctx.fresh("hv."+l.key, l.sort), nil)
		case l.obj == nil:
			x.setHeap(st, l.key, x.ctx.fresh("hv."+l.key, l.sort), nil)
		default:
			x.setHeap(st, l.key, Store(cur, *l.obj, x.ctx.fresh("hv."+l.key, l.sort.elem())), l.obj)
		}
	}
}

// ---- top level: environments, final checks ------------------------------------------

func (x *exec) bodyEnv(st *State) *specEnv {
	fr := st.top()
	nq := 0
	var pkg *types.Package
	if fr.fn.Pkg != nil {
		pkg = fr.fn.Pkg.Pkg
	} else if fr.fn.Parent() != nil && fr.fn.Parent().Pkg != nil {
		pkg = fr.fn.Parent().Pkg.Pkg
	}
	vars := map[string]specVal{}
	if fr.fn == x.topFn {
		for k, v := range x.topVars {
			vars[k] = v
		}
	}
	return &specEnv{x: x, pkg: pkg, vars: vars, st: st, cur: st, old: x.entry, frame: fr, nq: &nq,
		what: "body spec of " + CanonKey(fr.fn)}
}

// finish is the continuation of the function under verification.
func (x *exec) finish(st *State, out Outcome) {
	ct := x.ctx.C
	nq := 0
	vars := map[string]specVal{}
	for k, v := range x.topVars {
		vars[k] = v
	}
	sig := x.topFn.Signature
	var pos token.Pos = x.topFn.Pos()
	if out.Panic {
		// which panics are allowed to escape?
		var allowed Term = False
		if ct.MayPanic {
			if ct.PanicTag == "*" {
				allowed = True
			} else {
				allowed = Eq(out.PVal.Tag, x.panicTag(ct))
			}
		}
		st.frames = append(st.frames, &Frame{fn: x.topFn, env: map[ssa.Value]Val{}, names: map[string]Val{}})
		x.oblige(st, "panic", "", "no-unexpected-panic", allowed, pos)
		se := &specEnv{x: x, pkg: x.specPkg(ct), vars: vars, st: st, cur: st, old: x.entry, nq: &nq, what: "panic_ensures of " + x.ctx.Key}
		for _, e := range ct.PanicEnsures {
			x.oblige(st, "panic_ensures", e.Label, "", se.evalBool(e.Expr), pos)
		}
		x.frameCheck(st, vars, pos)
		st.frames = st.frames[:len(st.frames)-1]
		return
	}
	for i, v := range out.Vals {
		vars[fmt.Sprintf("result%d", i)] = specVal{V: v, T: sig.Results().At(i).Type()}

	}
	st.frames = append(st.frames, &Frame{fn: x.topFn, env: map[ssa.Value]Val{}, names: map[string]Val{}})
	se := &specEnv{x: x, pkg: x.specPkg(ct), vars: vars, st: st, cur: st, old: x.entry, nq: &nq, what: "ensures of " + x.ctx.Key}
	if out.Fr != nil {
		// local variables of the function (their values at this return) may be named in ensures
		se.frame = out.Fr
		se.lenient = true
	}
	for _, g := range ct.Ghost {
		if g.AtReturn {
			se.what = "ghostcode " + g.Src
			x.execGhost(st, g, se)
		}
	}
	for _, e := range ct.Ensures {
		se.what = "ensures " + e.Label + " of " + x.ctx.Key
		x.oblige(st, "ensures", e.Label, "", se.evalBool(e.Expr), pos)
	}
	x.frameCheck(st, vars, pos)
	x.oblige(st, "canary", "", "", False, pos)
	st.frames = st.frames[:len(st.frames)-1]
	x.ctx.Ends++
}

// frameCheck: every heap location that differs from the entry state must be covered by
// the modifies clause (objects allocated by this function are exempt).
func (x *exec) frameCheck(st *State, vars map[string]specVal, pos token.Pos) {
	ct := x.ctx.C
	if ct.ModifiesAll {
		return
	}
	if ct.TrustFrame != "" {
		// the frame is used by callers but not checked here: an ASSUMPTION, listed in the evidence
		x.ctx.note("ASSUMED frame of " + x.ctx.Key + " (directive trustframe): " + ct.TrustFrame)
		return
	}
	if st.epoch != 0 {
		x.oblige(st, "frame", "", "whole-heap havoc in body but no 'modifies *'", False, pos)
		return
	}
	nq := 0
	se := &specEnv{x: x, pkg: x.specPkg(ct), vars: vars, st: x.entry, cur: st, old: x.entry, nq: &nq, what: "modifies of " + x.ctx.Key}
	allowed := map[string][]modLoc{}
	for _, m := range ct.Modifies {
		for _, l := range x.modLocs(se, m) {
			allowed[l.key] = append(allowed[l.key], l)
		}
	}
	var keys []string
	for k := range st.heap {
		keys = append(keys, k)
	}
	sort.Strings(keys)
	var goals []Term
	w0 := Term{"W@0", SInt}
	for _, k := range keys {
		cur := st.heap[k]
		init := x.ctx.heapInit(k, cur.Sort, 0)
		if cur.S == init.S {
			continue
		}
		locs := allowed[k]
		whole := false
		for _, l := range locs {
			if l.obj == nil {
				whole = true
			}
		}
		if whole {
			continue
		}
		if strings.HasPrefix(k, "GV.") {
			goals = append(goals, Eq(cur, init))
			continue
		}
		o := x.ctx.fresh("frame.obj", SInt)
		cond := []Term{Lt(Zero, o), Le(o, w0)}
		for _, l := range locs {
			cond = append(cond, Neq(o, *l.obj))
		}
		goals = append(goals, Implies(And(cond...), Eq(Select(cur, o), Select(init, o))))
	}
	if len(goals) > 0 {
		x.oblige(st, "frame", "", "only-modifies-listed", And(goals...), pos)
	}
}
