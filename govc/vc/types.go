package vc

import (
	"fmt"
	"go/types"
	"strings"

	"golang.org/x/tools/go/ssa"
)

// ---- symbolic values -------------------------------------------------------

// Val is a symbolic value: Term (scalar) or one of the composite kinds below.
type Val interface{}

type StructV struct {
	T types.Type // struct (possibly named)
	F []Val
}

type SliceV struct{ Arr, Off, Len, Cap Term }

type IfaceV struct{ Tag, Pay Term }

// PtrV is a pointer: either to a heap object (Obj ref, Root = pointee type of the
// object, Path = field indexes inside it) or to a local cell.
type PtrV struct {
	Obj  Term
	Root types.Type
	Path []int
	Cell *Cell
	Glob *ssa.Global
	Elem bool // element of a slice backing array: Obj = array ref, Idx = absolute index, Root = element type
	Idx  Term
}

type Cell struct {
	ID   int
	T    types.Type
	Name string
}

type TupleV []Val

type ClosureV struct {
	Fn   *ssa.Function
	Bind []Val
}

// FuncV is a function value that is not a closure literal: a static function, or an
// opaque value loaded from a variable (Var = name of the global it came from, if known).
type FuncV struct {
	Fn  *ssa.Function
	Var string
	T   Term
}

type ArrayV struct {
	Elem types.Type
	E    []Val
}

type MapIterV struct {
	Map     Term
	MapT    *types.Map
	Visited Term // (Array Int Bool)
	IsStr   bool
}

// ---- leaves: flattening of Go types into SMT scalars ------------------------

type LeafKind int

const (
	LInt LeafKind = iota
	LBool
	LRef    // pointers, maps, chans, funcs
	LString // string id
	LIfaceTag
	LIfacePay
	LSliceArr
	LSliceOff
	LSliceLen
	LSliceCap
)

type Leaf struct {
	Path string
	Sort Sort
	Kind LeafKind
	T    types.Type // type of the leaf's owner (e.g. the integer type)
}

func isStructT(t types.Type) (*types.Struct, bool) {
	s, ok := t.Underlying().(*types.Struct)
	return s, ok
}

func leavesOf(t types.Type) []Leaf {
	var out []Leaf
	var rec func(prefix string, t types.Type)
	join := func(p, s string) string {
		if p == "" {
			return s
		}
		return p + "." + s
	}
	rec = func(prefix string, t types.Type) {
		switch u := t.Underlying().(type) {
		case *types.Basic:
			switch {
			case u.Info()&types.IsBoolean != 0:
				out = append(out, Leaf{prefix, SBool, LBool, t})
			case u.Info()&types.IsInteger != 0:
				out = append(out, Leaf{prefix, SInt, LInt, t})
			case u.Info()&types.IsString != 0:
				out = append(out, Leaf{prefix, SInt, LString, t})
			case u.Kind() == types.UnsafePointer, u.Kind() == types.UntypedNil:
				out = append(out, Leaf{prefix, SInt, LRef, t})
			default: // floats etc: opaque ints
				out = append(out, Leaf{prefix, SInt, LRef, t})
			}
		case *types.Pointer, *types.Map, *types.Chan, *types.Signature:
			out = append(out, Leaf{prefix, SInt, LRef, t})
		case *types.Interface:
			out = append(out, Leaf{join(prefix, "itag"), SInt, LIfaceTag, t})
			out = append(out, Leaf{join(prefix, "ipay"), SInt, LIfacePay, t})
		case *types.Slice:
			out = append(out, Leaf{join(prefix, "sarr"), SInt, LSliceArr, t})
			out = append(out, Leaf{join(prefix, "soff"), SInt, LSliceOff, t})
			out = append(out, Leaf{join(prefix, "slen"), SInt, LSliceLen, t})
			out = append(out, Leaf{join(prefix, "scap"), SInt, LSliceCap, t})
		case *types.Struct:
			for i := 0; i < u.NumFields(); i++ {
				rec(join(prefix, u.Field(i).Name()), u.Field(i).Type())
			}
		case *types.Array:
			// arrays are flattened element-wise when small
			if u.Len() > 16 {
				panic(unsupported(fmt.Sprintf("array type too large: %s", t)))
			}
			for i := int64(0); i < u.Len(); i++ {
				rec(join(prefix, fmt.Sprintf("a%d", i)), u.Elem())
			}
		case *types.Tuple:
			for i := 0; i < u.Len(); i++ {
				rec(join(prefix, fmt.Sprintf("t%d", i)), u.At(i).Type())
			}
		default:
			panic(unsupported(fmt.Sprintf("leavesOf: type %s", t)))
		}
	}
	rec("", t)
	return out
}

// flattenVal turns v (of Go type t) into its leaf terms, in leavesOf order.
func flattenVal(v Val, t types.Type) []Term {
	var out []Term
	var rec func(v Val, t types.Type)
	rec = func(v Val, t types.Type) {
		switch u := t.Underlying().(type) {
		case *types.Struct:
			sv, ok := v.(*StructV)
			if !ok {
				panic(unsupported(fmt.Sprintf("flatten: want struct for %s, got %T", t, v)))
			}
			for i := 0; i < u.NumFields(); i++ {
				rec(sv.F[i], u.Field(i).Type())
			}
		case *types.Array:
			av, ok := v.(*ArrayV)
			if !ok {
				panic(unsupported(fmt.Sprintf("flatten: want array for %s, got %T", t, v)))
			}
			for i := range av.E {
				rec(av.E[i], u.Elem())
			}
		case *types.Tuple:
			tv := v.(TupleV)
			for i := range tv {
				rec(tv[i], u.At(i).Type())
			}
		case *types.Interface:
			iv, ok := v.(*IfaceV)
			if !ok {
				panic(unsupported(fmt.Sprintf("flatten: want iface for %s, got %T", t, v)))
			}
			out = append(out, iv.Tag, iv.Pay)
		case *types.Slice:
			sv, ok := v.(*SliceV)
			if !ok {
				panic(unsupported(fmt.Sprintf("flatten: want slice for %s, got %T", t, v)))
			}
			out = append(out, sv.Arr, sv.Off, sv.Len, sv.Cap)
		case *types.Pointer:
			switch pv := v.(type) {
			case *PtrV:
				if pv.Cell != nil || len(pv.Path) > 0 || pv.Glob != nil {
					panic(unsupported("interior/local pointer escapes to heap or contract"))
				}
				out = append(out, pv.Obj)
			case Term:
				out = append(out, pv)
			default:
				panic(unsupported(fmt.Sprintf("flatten: pointer value %T", v)))
			}
		case *types.Signature:
			switch fv := v.(type) {
			case *FuncV:
				out = append(out, fv.T)
			case Term:
				out = append(out, fv)
			default:
				panic(unsupported(fmt.Sprintf("flatten: func value %T escapes", v)))
			}
		default:
			tv, ok := v.(Term)
			if !ok {
				panic(unsupported(fmt.Sprintf("flatten: want scalar for %s, got %T", t, v)))
			}
			out = append(out, tv)
		}
	}
	rec(v, t)
	return out
}

// unflattenVal is the inverse of flattenVal.
func unflattenVal(ts []Term, t types.Type) Val {
	pos := 0
	var rec func(t types.Type) Val
	rec = func(t types.Type) Val {
		switch u := t.Underlying().(type) {
		case *types.Struct:
			sv := &StructV{T: t, F: make([]Val, u.NumFields())}
			for i := 0; i < u.NumFields(); i++ {
				sv.F[i] = rec(u.Field(i).Type())
			}
			return sv
		case *types.Array:
			av := &ArrayV{Elem: u.Elem()}
			for i := int64(0); i < u.Len(); i++ {
				av.E = append(av.E, rec(u.Elem()))
			}
			return av
		case *types.Tuple:
			var tv TupleV
			for i := 0; i < u.Len(); i++ {
				tv = append(tv, rec(u.At(i).Type()))
			}
			return tv
		case *types.Interface:
			iv := &IfaceV{ts[pos], ts[pos+1]}
			pos += 2
			return iv
		case *types.Slice:
			sv := &SliceV{ts[pos], ts[pos+1], ts[pos+2], ts[pos+3]}
			pos += 4
			return sv
		case *types.Pointer:
			pv := &PtrV{Obj: ts[pos], Root: u.Elem()}
			pos++
			return pv
		case *types.Signature:
			fv := &FuncV{T: ts[pos]}
			pos++
			return fv
		default:
			v := ts[pos]
			pos++
			return v
		}
	}
	v := rec(t)
	if pos != len(ts) {
		panic(fmt.Sprintf("unflatten: used %d of %d leaves for %s", pos, len(ts), t))
	}
	return v
}

// intRange returns lo, hi (inclusive) of an integer type, ok=false if not integer.
func intRange(t types.Type) (lo, hi Term, ok bool) {
	b, isb := t.Underlying().(*types.Basic)
	if !isb || b.Info()&types.IsInteger == 0 {
		return Term{}, Term{}, false
	}
	bits, signed := intBits(b)
	if signed {
		return BigLit(new(bigInt).Neg(p2(bits - 1))), BigLit(new(bigInt).Sub(p2(bits-1), bigOne)), true
	}
	return Zero, BigLit(new(bigInt).Sub(p2(bits), bigOne)), true
}

func intBits(b *types.Basic) (bits int, signed bool) {
	switch b.Kind() {
	case types.Int8:
		return 8, true
	case types.Int16:
		return 16, true
	case types.Int32:
		return 32, true
	case types.Int64, types.Int, types.UntypedInt, types.UntypedRune:
		return 64, true
	case types.Uint8:
		return 8, false
	case types.Uint16:
		return 16, false
	case types.Uint32:
		return 32, false
	case types.Uint64, types.Uint, types.Uintptr:
		return 64, false
	}
	return 64, true
}

// typeKey is a short, SMT-safe name for a type used in heap array names.
func typeKey(t types.Type) string {
	if b, ok := t.(*types.Basic); ok {
		// byte and rune are aliases: one heap key per underlying kind
		switch b.Kind() {
		case types.Uint8:
			return "uint8"
		case types.Int32:
			return "int32"
		}
	}
	s := types.TypeString(t, func(p *types.Package) string { return p.Name() })
	s = strings.ReplaceAll(s, "[]byte", "[]uint8")
	s = strings.ReplaceAll(s, "github.com/santhosh-tekuri/raft/", "")
	return smtName(s)
}

type unsupportedErr struct{ msg string }

func (u unsupportedErr) Error() string { return "unsupported: " + u.msg }
func unsupported(msg string) unsupportedErr { return unsupportedErr{msg} }

func deref(t types.Type) types.Type {
	if p, ok := t.Underlying().(*types.Pointer); ok {
		return p.Elem()
	}
	return t
}

func isPointer(t types.Type) bool {
	_, ok := t.Underlying().(*types.Pointer)
	return ok
}

func isInterface(t types.Type) bool {
	_, ok := t.Underlying().(*types.Interface)
	return ok
}
