package vc

import (
	"fmt"
	"go/ast"
	"go/parser"
	"os"
	"regexp"
	"sort"
	"strconv"
	"strings"
)

// Clause is one labelled spec expression.
type Clause struct {
	Label string
	Src   string
	Expr  ast.Expr
	File  string
	Line  int
}

type LoopSpec struct {
	Ordinal    int
	Invariants []*Clause
	Decreases  *Clause
	Unroll     int // >0: bounded unrolling instead of invariant
}

type Contract struct {
	Key          string
	ParamNames   []string // optional renaming of parameters (incl. receiver first)
	Requires     []*Clause
	Ensures      []*Clause
	PanicEnsures []*Clause
	Modifies     []*Clause
	ModifiesAll  bool // "modifies *": havoc everything
	Trusted      bool
	Inline       bool
	MayPanic     bool   // callee may panic with an operational error (OpError); callers fork
	PanicTag     string // dynamic type of the panic value (default OpError)
	NoNilCheck   bool
	Nilable      []string
	Loops        map[int]*LoopSpec
	Asserts      []*Clause
	CrashInv     []*Clause
	Ghost        []*GhostStmt // ghost assignments anchored after calls
	TrustFrame   string          // non-empty: the modifies clause is assumed, not proved (reason)
	RecvAssume   []*RecvAssume   // assumed channel invariants at receive sites
	MergeAt      int             // loop-head join threshold for this function (directive mergeat; default 6)
	Dead         map[string]bool // call sites (name#ordinal) acknowledged as unreachable in context (dead defensive code)
	Witness      []*Clause
	Replay       string
	Props        []string // extra property ids this function's safety obligations count for
	File         string
	Line         int
	Pkg          string // package path the contract file belongs to
	Used         bool
	IsView       bool
}

// RecvAssume: `recvassume K: expr` assumes expr (over `recv`, the received value) at the K-th receive site.
type RecvAssume struct {
	Ord    int
	Clause *Clause
}

// GhostStmt is a ghost assignment executed right after the Ord-th call (in source order) of
// the function or method named Callee inside the contract's function:
//   ghostcode after call connect 1: l.gin[ref(s2)] := true
// The right-hand side may use result0, result1 .. for the results of that call.
type GhostStmt struct {
	Callee string
	Ord    int
	AtSend   bool // `ghostcode at send K: ...`: executed when the K-th send site (source order) sends
	AtReturn bool // `ghostcode at return: ...`: executed at every normal return, before the postconditions
	LHS    *Clause
	RHS    *Clause
	Src    string
}

type PureFn struct {
	Name   string
	Params []string
	PTypes []string
	Body   *Clause
	Pkg    string
	// opaque predicate: applied to a quantified argument it stays an uninterpreted function
	// of its arguments and of the values of its declared footprint (Reads); applied to ground
	// arguments its definition is unfolded. The footprint is checked (obligation "footprint").
	Opaque bool
	Reads  []*Clause
}

type GhostField struct {
	Owner string // type name, e.g. "storage"
	Name  string
	Type  string // "uint64", "bool", "map[uint64]uint64", ...
	Pkg   string
}

type GhostVar struct {
	Name string
	Type string
}

type GhostFunc struct {
	Name   string
	PTypes []string
	RType  string
}

type Axiom struct {
	Label  string
	Clause *Clause
	Pkg    string
}

type Specs struct {
	Contracts   map[string]*Contract
	Views       map[string]*Contract // callerPkgPath|key -> trusted abstract view
	Pures       map[string]*PureFn
	GhostFields map[string]*GhostField // key Owner.Name
	GhostVars   map[string]*GhostVar
	GhostFuncs  map[string]*GhostFunc
	Axioms      []*Axiom
	Files       []string
	Depends     map[string][]string // property -> properties whose obligations it rests on (directive depends)
}

func NewSpecs() *Specs {
	return &Specs{
		Contracts:   map[string]*Contract{},
		Views:       map[string]*Contract{},
		Pures:       map[string]*PureFn{},
		GhostFields: map[string]*GhostField{},
		GhostVars:   map[string]*GhostVar{},
		GhostFuncs:  map[string]*GhostFunc{},
	}
}

var labelRe = regexp.MustCompile(`^\[([A-Za-z0-9_.+\-]+)\]\s*`)

var keywords = map[string]bool{
	"func": true, "requires": true, "ensures": true, "modifies": true, "trusted": true,
	"inline": true, "maypanic": true, "panic_ensures": true, "loop": true, "pure": true,
	"ghost": true, "axiom": true, "witness": true, "replay": true, "assert": true,
	"nonilcheck": true, "props": true, "nilable": true, "crash_inv": true, "view": true, "opaque": true, "ghostcode": true, "dead": true, "depends": true, "mergeat": true, "trustframe": true, "recvassume": true,
}

type directive struct {
	kw   string
	rest string
	file string
	line int
}

// ParseFile reads the //@ lines of one contract file. pkgPath is the import path of the
// package the file belongs to (spec identifiers resolve in that package's scope).
func (s *Specs) ParseFile(path, pkgPath string) error {
	data, err := os.ReadFile(path)
	if err != nil {
		return err
	}
	s.Files = append(s.Files, path)
	var ds []*directive
	for i, line := range strings.Split(string(data), "\n") {
		t := strings.TrimSpace(line)
		if !strings.HasPrefix(t, "//@") {
			continue
		}
		t = strings.TrimSpace(t[3:])
		if t == "" || strings.HasPrefix(t, "//") {
			continue
		}
		// strip trailing comment introduced by " // "
		if j := strings.Index(t, " // "); j >= 0 {
			t = strings.TrimSpace(t[:j])
		}
		fields := strings.SplitN(t, " ", 2)
		kw := fields[0]
		if keywords[kw] {
			rest := ""
			if len(fields) > 1 {
				rest = strings.TrimSpace(fields[1])
			}
			ds = append(ds, &directive{kw, rest, path, i + 1})
		} else {
			if len(ds) == 0 {
				return fmt.Errorf("%s:%d: continuation line without directive", path, i+1)
			}
			ds[len(ds)-1].rest += " " + t
		}
	}
	var cur *Contract
	for _, d := range ds {
		mk := func(src string) (*Clause, error) {
			c := &Clause{File: d.file, Line: d.line}
			if m := labelRe.FindStringSubmatch(src); m != nil {
				c.Label = m[1]
				src = src[len(m[0]):]
			}
			c.Src = src
			e, err := parseSpecExpr(src)
			if err != nil {
				return nil, fmt.Errorf("%s:%d: %v in %q", d.file, d.line, err, src)
			}
			c.Expr = e
			return c, nil
		}
		switch d.kw {
		case "func", "view":
			key := d.rest
			var names []string
			// optional " params(a, b, c)" parameter renaming at the end
			if i := strings.Index(key, " params("); i > 0 && strings.HasSuffix(key, ")") {
				for _, n := range strings.Split(key[i+8:len(key)-1], ",") {
					if n = strings.TrimSpace(n); n != "" {
						names = append(names, n)
					}
				}
				key = strings.TrimSpace(key[:i])
			}
			if d.kw == "view" {
				// "view <key> at <caller>, <caller>": only for call sites inside those functions
				if i := strings.Index(key, " at "); i > 0 {
					callers := strings.Split(key[i+4:], ",")
					key = strings.TrimSpace(key[:i])
					cur = &Contract{Key: key, ParamNames: names, Loops: map[int]*LoopSpec{}, File: d.file, Line: d.line, Pkg: pkgPath, Trusted: true, IsView: true}
					for _, c := range callers {
						s.Views["fn:"+strings.TrimSpace(c)+"|"+key] = cur
					}
					break
				}
				// a trusted abstract view of another package's function, used only at the call
				// sites of the declaring package
				cur = &Contract{Key: key, ParamNames: names, Loops: map[int]*LoopSpec{}, File: d.file, Line: d.line, Pkg: pkgPath, Trusted: true, IsView: true}
				s.Views[pkgPath+"|"+key] = cur
				break
			}
			key = qualifyKey(key, pkgPath)
			if _, dup := s.Contracts[key]; dup {
				return fmt.Errorf("%s:%d: duplicate contract for %s", d.file, d.line, key)
			}
			cur = &Contract{Key: key, ParamNames: names, Loops: map[int]*LoopSpec{}, File: d.file, Line: d.line, Pkg: pkgPath}
			s.Contracts[key] = cur
		case "requires", "ensures", "panic_ensures", "assert", "witness", "crash_inv":
			if cur == nil {
				return fmt.Errorf("%s:%d: %s outside func", d.file, d.line, d.kw)
			}
			c, err := mk(d.rest)
			if err != nil {
				return err
			}
			switch d.kw {
			case "requires":
				cur.Requires = append(cur.Requires, c)
			case "ensures":
				cur.Ensures = append(cur.Ensures, c)
			case "panic_ensures":
				cur.PanicEnsures = append(cur.PanicEnsures, c)
			case "assert":
				cur.Asserts = append(cur.Asserts, c)
			case "witness":
				cur.Witness = append(cur.Witness, c)
			case "crash_inv":
				cur.CrashInv = append(cur.CrashInv, c)
			}
		case "depends":
			// depends C01 C05 C11 : the check of C01 also decides the obligations labelled C05 / C11
			f := strings.Fields(d.rest)
			if len(f) < 2 {
				return fmt.Errorf("%s:%d: depends: want 'depends Cxx Cyy ...'", d.file, d.line)
			}
			if s.Depends == nil {
				s.Depends = map[string][]string{}
			}
			s.Depends[f[0]] = append(s.Depends[f[0]], f[1:]...)
			cur = nil
		case "recvassume":
			if cur == nil {
				return fmt.Errorf("%s:%d: recvassume outside func", d.file, d.line)
			}
			colon := strings.Index(d.rest, ":")
			if colon < 0 {
				return fmt.Errorf("%s:%d: recvassume: want 'recvassume K: expr'", d.file, d.line)
			}
			k, err := strconv.Atoi(strings.TrimSpace(d.rest[:colon]))
			if err != nil {
				return fmt.Errorf("%s:%d: recvassume: %v", d.file, d.line, err)
			}
			c, err := mk(strings.TrimSpace(d.rest[colon+1:]))
			if err != nil {
				return err
			}
			cur.RecvAssume = append(cur.RecvAssume, &RecvAssume{Ord: k, Clause: c})
		case "trustframe":
			if cur == nil {
				return fmt.Errorf("%s:%d: trustframe outside func", d.file, d.line)
			}
			cur.TrustFrame = strings.TrimSpace(d.rest)
			if cur.TrustFrame == "" {
				return fmt.Errorf("%s:%d: trustframe needs a reason", d.file, d.line)
			}
		case "mergeat":
			if cur == nil {
				return fmt.Errorf("%s:%d: mergeat outside func", d.file, d.line)
			}
			k, err := strconv.Atoi(strings.TrimSpace(d.rest))
			if err != nil {
				return fmt.Errorf("%s:%d: mergeat: %v", d.file, d.line, err)
			}
			cur.MergeAt = k
		case "dead":
			// dead Get#1 opError#3 : these calls are on branches that cannot be taken in context
			if cur == nil {
				return fmt.Errorf("%s:%d: dead outside func", d.file, d.line)
			}
			if cur.Dead == nil {
				cur.Dead = map[string]bool{}
			}
			for _, f := range strings.Fields(d.rest) {
				cur.Dead[f] = true
			}
		case "ghostcode":
			if cur == nil {
				return fmt.Errorf("%s:%d: ghostcode outside func", d.file, d.line)
			}
			colon := strings.Index(d.rest, ":")
			asg := strings.Index(d.rest, ":=")
			if colon < 0 || asg < 0 || asg <= colon {
				return fmt.Errorf("%s:%d: ghostcode: want 'after call NAME K: LHS := RHS'", d.file, d.line)
			}
			hf := strings.Fields(d.rest[:colon])
			atReturn := len(hf) == 2 && hf[0] == "at" && hf[1] == "return"
			atSend := len(hf) == 3 && hf[0] == "at" && hf[1] == "send"
			k := 0
			if atReturn {
				hf = []string{"at", "return", "", "0"}
			} else if atSend {
				var err error
				k, err = strconv.Atoi(hf[2])
				if err != nil {
					return fmt.Errorf("%s:%d: ghostcode at send: %v", d.file, d.line, err)
				}
				hf = []string{"at", "send", "", hf[2]}
			} else {
				if len(hf) != 4 || hf[0] != "after" || hf[1] != "call" {
					return fmt.Errorf("%s:%d: ghostcode: want 'after call NAME K: LHS := RHS' or 'at return: LHS := RHS'", d.file, d.line)
				}
				var err error
				k, err = strconv.Atoi(hf[3])
				if err != nil {
					return fmt.Errorf("%s:%d: ghostcode: %v", d.file, d.line, err)
				}
			}
			lhs, err := mk(strings.TrimSpace(d.rest[colon+1 : asg]))
			if err != nil {
				return err
			}
			rhs, err := mk(strings.TrimSpace(d.rest[asg+2:]))
			if err != nil {
				return err
			}
			cur.Ghost = append(cur.Ghost, &GhostStmt{Callee: hf[2], Ord: k, AtReturn: atReturn, AtSend: atSend, LHS: lhs, RHS: rhs, Src: d.rest})
		case "modifies":
			if cur == nil {
				return fmt.Errorf("%s:%d: modifies outside func", d.file, d.line)
			}
			if strings.TrimSpace(d.rest) == "*" {
				cur.ModifiesAll = true
				break
			}
			for _, part := range splitTop(d.rest, ',') {
				part = strings.TrimSpace(part)
				if part == "" {
					continue
				}
				c, err := mk(part)
				if err != nil {
					return err
				}
				cur.Modifies = append(cur.Modifies, c)
			}
		case "trusted":
			cur.Trusted = true
		case "inline":
			cur.Inline = true
		case "nonilcheck":
			cur.NoNilCheck = true
		case "nilable":
			cur.Nilable = append(cur.Nilable, strings.Fields(strings.ReplaceAll(d.rest, ",", " "))...)
		case "maypanic":
			cur.MayPanic = true
			cur.PanicTag = strings.TrimSpace(d.rest)
		case "replay":
			cur.Replay = strings.TrimSpace(d.rest)
		case "props":
			cur.Props = append(cur.Props, strings.Fields(d.rest)...)
		case "loop":
			f := strings.SplitN(d.rest, " ", 3)
			if len(f) < 3 {
				return fmt.Errorf("%s:%d: malformed loop directive", d.file, d.line)
			}
			n, err := strconv.Atoi(f[0])
			if err != nil {
				return fmt.Errorf("%s:%d: loop ordinal: %v", d.file, d.line, err)
			}
			ls := cur.Loops[n]
			if ls == nil {
				ls = &LoopSpec{Ordinal: n}
				cur.Loops[n] = ls
			}
			switch f[1] {
			case "invariant":
				c, err := mk(f[2])
				if err != nil {
					return err
				}
				ls.Invariants = append(ls.Invariants, c)
			case "decreases":
				c, err := mk(f[2])
				if err != nil {
					return err
				}
				ls.Decreases = c
			case "unroll":
				k, err := strconv.Atoi(strings.TrimSpace(f[2]))
				if err != nil {
					return fmt.Errorf("%s:%d: unroll: %v", d.file, d.line, err)
				}
				ls.Unroll = k
			default:
				return fmt.Errorf("%s:%d: unknown loop clause %q", d.file, d.line, f[1])
			}
		case "pure", "opaque":
			// pure Name(a T, b U) = expr
			// opaque Name(a T) bool reads e1, e2 = expr
			i := strings.Index(d.rest, "=")
			// find the first '=' that is not part of ==, <=, >=, != : it follows the ")" of the header
			hdrEnd := strings.Index(d.rest, ")")
			if hdrEnd < 0 || i < 0 {
				return fmt.Errorf("%s:%d: malformed pure", d.file, d.line)
			}
			j := strings.Index(d.rest[hdrEnd:], "=")
			if j < 0 {
				return fmt.Errorf("%s:%d: malformed pure (no body)", d.file, d.line)
			}
			hdr := strings.TrimSpace(d.rest[:hdrEnd+1])
			body := strings.TrimSpace(d.rest[hdrEnd+j+1:])
			op := strings.Index(hdr, "(")
			name := strings.TrimSpace(hdr[:op])
			pf := &PureFn{Name: name, Pkg: pkgPath}
			if d.kw == "opaque" {
				pf.Opaque = true
				mid := d.rest[hdrEnd+1 : hdrEnd+j]
				ri := strings.Index(mid, "reads")
				if ri < 0 {
					return fmt.Errorf("%s:%d: opaque %s needs a reads clause", d.file, d.line, name)
				}
				for _, r := range splitTop(mid[ri+len("reads"):], ',') {
					if r = strings.TrimSpace(r); r != "" {
						rc, err := mk(r)
						if err != nil {
							return err
						}
						pf.Reads = append(pf.Reads, rc)
					}
				}
			}
			for _, p := range splitTop(hdr[op+1:len(hdr)-1], ',') {
				p = strings.TrimSpace(p)
				if p == "" {
					continue
				}
				nt := strings.SplitN(p, " ", 2)
				if len(nt) != 2 {
					return fmt.Errorf("%s:%d: pure param %q needs a type", d.file, d.line, p)
				}
				pf.Params = append(pf.Params, nt[0])
				pf.PTypes = append(pf.PTypes, strings.TrimSpace(nt[1]))
			}
			c, err := mk(body)
			if err != nil {
				return err
			}
			pf.Body = c
			if _, dup := s.Pures[name]; dup {
				return fmt.Errorf("%s:%d: duplicate pure %s", d.file, d.line, name)
			}
			s.Pures[name] = pf
		case "ghost":
			f := strings.Fields(d.rest)
			if len(f) < 3 {
				return fmt.Errorf("%s:%d: malformed ghost", d.file, d.line)
			}
			switch f[0] {
			case "field": // ghost field storage.flushed uint64
				on := strings.SplitN(f[1], ".", 2)
				if len(on) != 2 {
					return fmt.Errorf("%s:%d: ghost field needs Owner.name", d.file, d.line)
				}
				s.GhostFields[f[1]] = &GhostField{Owner: on[0], Name: on[1], Type: strings.Join(f[2:], " "), Pkg: pkgPath}
			case "var":
				s.GhostVars[f[1]] = &GhostVar{Name: f[1], Type: strings.Join(f[2:], " ")}
			case "func": // ghost func name(T1, T2) R
				rest := strings.TrimSpace(strings.TrimPrefix(d.rest, "func"))
				op := strings.Index(rest, "(")
				cp := strings.LastIndex(rest, ")")
				if op < 0 || cp < 0 {
					return fmt.Errorf("%s:%d: malformed ghost func", d.file, d.line)
				}
				gf := &GhostFunc{Name: strings.TrimSpace(rest[:op]), RType: strings.TrimSpace(rest[cp+1:])}
				for _, p := range splitTop(rest[op+1:cp], ',') {
					if p = strings.TrimSpace(p); p != "" {
						gf.PTypes = append(gf.PTypes, p)
					}
				}
				s.GhostFuncs[gf.Name] = gf
			default:
				return fmt.Errorf("%s:%d: unknown ghost kind %q", d.file, d.line, f[0])
			}
		case "axiom":
			c, err := mk(d.rest)
			if err != nil {
				return err
			}
			s.Axioms = append(s.Axioms, &Axiom{Label: c.Label, Clause: c, Pkg: pkgPath})
		}
	}
	return nil
}

// splitTop splits s at sep occurring at bracket depth 0.
func splitTop(s string, sep byte) []string {
	var out []string
	depth := 0
	start := 0
	for i := 0; i < len(s); i++ {
		switch s[i] {
		case '(', '[', '{':
			depth++
		case ')', ']', '}':
			depth--
		default:
			if s[i] == sep && depth == 0 {
				out = append(out, s[start:i])
				start = i + 1
			}
		}
	}
	out = append(out, s[start:])
	return out
}

// desugarImplies rewrites "a ==> b" (lowest precedence, right associative) into
// "implies(a, b)" so that go/parser accepts the expression.
func desugarImplies(s string) string {
	// first rewrite inside every bracketed group
	var b strings.Builder
	i := 0
	for i < len(s) {
		c := s[i]
		if c == '(' || c == '[' {
			closer := byte(')')
			if c == '[' {
				closer = ']'
			}
			depth := 1
			j := i + 1
			for j < len(s) && depth > 0 {
				if s[j] == c {
					depth++
				} else if s[j] == closer {
					depth--
				}
				j++
			}
			inner := s[i+1 : j-1]
			b.WriteByte(c)
			// argument lists: process each comma-separated part separately
			parts := splitTop(inner, ',')
			for k, p := range parts {
				if k > 0 {
					b.WriteByte(',')
				}
				b.WriteString(desugarImplies(p))
			}
			b.WriteByte(closer)
			i = j
			continue
		}
		b.WriteByte(c)
		i++
	}
	t := b.String()
	// now split at top-level ==>
	depth := 0
	for i := 0; i+2 < len(t); i++ {
		switch t[i] {
		case '(', '[', '{':
			depth++
		case ')', ']', '}':
			depth--
		}
		if depth == 0 && t[i] == '=' && t[i+1] == '=' && t[i+2] == '>' {
			return "implies(" + strings.TrimSpace(t[:i]) + ", " + desugarImplies(t[i+3:]) + ")"
		}
	}
	return t
}

func parseSpecExpr(src string) (ast.Expr, error) {
	return parser.ParseExpr(desugarImplies(src))
}

func (s *Specs) SortedContractKeys() []string {
	var ks []string
	for k := range s.Contracts {
		ks = append(ks, k)
	}
	sort.Strings(ks)
	return ks
}

// labelProp returns the property id prefix of a label "C05.name" -> "C05".
func labelProp(label string) string {
	if i := strings.Index(label, "."); i > 0 {
		return label[:i]
	}
	return label
}

// labelHasProp: a label may name several properties, "C14+C10.name".
func labelHasProp(label, prop string) bool {
	for _, p := range strings.Split(labelProp(label), "+") {
		if p == prop {
			return true
		}
	}
	return false
}

// covers: the property itself plus, transitively, the properties it depends on.
func (s *Specs) covers(prop string) map[string]bool {
	out := map[string]bool{prop: true}
	work := []string{prop}
	for len(work) > 0 {
		p := work[0]
		work = work[1:]
		for _, q := range s.Depends[p] {
			if !out[q] {
				out[q] = true
				work = append(work, q)
			}
		}
	}
	return out
}

// labelCounts: the label names the property or one it depends on.
func (s *Specs) labelCounts(label, prop string) bool {
	cov := s.covers(prop)
	for _, p := range strings.Split(labelProp(label), "+") {
		if cov[p] {
			return true
		}
	}
	return false
}

// qualifyKey turns a key written relative to a sub-package's contract file into the global
// canonical form: "(*segment).at" in package .../raft/log becomes "(*log.segment).at".
func qualifyKey(key, pkgPath string) string {
	if pkgPath == ModPath || !strings.HasPrefix(pkgPath, ModPath+"/") {
		return key
	}
	pn := pkgPath[strings.LastIndex(pkgPath, "/")+1:]
	if strings.HasPrefix(key, "var ") {
		return key
	}
	if strings.HasPrefix(key, "(") {
		end := strings.Index(key, ")")
		if end < 0 {
			return key
		}
		recv := key[1:end]
		star := ""
		if strings.HasPrefix(recv, "*") {
			star, recv = "*", recv[1:]
		}
		if strings.ContainsAny(recv, "./") {
			return key
		}
		return "(" + star + pn + "." + recv + ")" + key[end+1:]
	}
	if strings.ContainsAny(key, "./") {
		return key
	}
	return pn + "." + key
}
