package vc

import (
	"bytes"
	"context"
	"fmt"
	"os"
	osexec "os/exec"
	"path/filepath"
	"sort"
	"strings"
	"sync"
	"time"
)

type SolverCfg struct {
	TimeoutS float64
	Dir      string // where SMT files are written
	Sem      chan struct{}
	Solvers  []string // subset of z3, z3new, cvc5
}

func NewSolverCfg(dir string, timeout float64, par int) *SolverCfg {
	os.MkdirAll(dir, 0o755)
	return &SolverCfg{TimeoutS: timeout, Dir: dir, Sem: make(chan struct{}, par), Solvers: []string{"z3", "z3new", "cvc5"}}
}

type solveResult struct {
	verdict string // unsat sat unknown timeout error
	solver  string
	out     string
	time    float64
}

func solverCmd(name, file string, timeout float64) *osexec.Cmd {
	ms := int(timeout * 1000)
	switch name {
	case "z3":
		return osexec.Command("/usr/bin/z3", fmt.Sprintf("-T:%d", int(timeout)+1), fmt.Sprintf("-t:%d", ms), file)
	case "z3new":
		return osexec.Command("z3-new", fmt.Sprintf("-T:%d", int(timeout)+1), fmt.Sprintf("-t:%d", ms), file)
	case "cvc5":
		return osexec.Command("cvc5", "--lang=smt2", fmt.Sprintf("--tlimit=%d", ms), "--produce-models", file)
	}
	panic("unknown solver " + name)
}

// race runs the solvers concurrently on one file; the first definite answer wins.
func (sc *SolverCfg) race(file string) solveResult {
	ctx, cancel := context.WithCancel(context.Background())
	defer cancel()
	ch := make(chan solveResult, len(sc.Solvers))
	var wg sync.WaitGroup
	for _, s := range sc.Solvers {
		wg.Add(1)
		go func(s string) {
			defer wg.Done()
			sc.Sem <- struct{}{}
			defer func() { <-sc.Sem }()
			if ctx.Err() != nil {
				ch <- solveResult{verdict: "cancelled", solver: s}
				return
			}
			cmd := solverCmd(s, file, sc.TimeoutS)
			var out bytes.Buffer
			cmd.Stdout = &out
			cmd.Stderr = &out
			t0 := time.Now()
			if err := cmd.Start(); err != nil {
				ch <- solveResult{verdict: "error", solver: s, out: err.Error()}
				return
			}
			done := make(chan struct{})
			go func() {
				select {
				case <-ctx.Done():
					cmd.Process.Kill()
				case <-done:
				}
			}()
			cmd.Wait()
			close(done)
			el := time.Since(t0).Seconds()
			first := strings.TrimSpace(strings.SplitN(out.String(), "\n", 2)[0])
			v := "unknown"
			switch {
			case first == "unsat":
				v = "unsat"
			case first == "sat":
				v = "sat"
			case first == "timeout" || strings.Contains(first, "timeout") || el >= sc.TimeoutS:
				v = "timeout"
			case strings.HasPrefix(first, "(error"):
				v = "error"
			}
			ch <- solveResult{verdict: v, solver: s, out: out.String(), time: el}
		}(s)
	}
	go func() { wg.Wait(); close(ch) }()
	var best solveResult
	best.verdict = "none"
	var errs []string
	for r := range ch {
		switch r.verdict {
		case "unsat":
			cancel()
			return r
		case "sat":
			if best.verdict != "sat" {
				best = r
			}
			cancel() // a model is enough
			return r
		case "error":
			errs = append(errs, r.solver+": "+firstLine(r.out))
			if best.verdict == "none" {
				best = r
			}
		case "cancelled":
		default:
			if best.verdict == "none" || best.verdict == "error" {
				best = r
			}
		}
	}
	if best.verdict == "none" {
		best.verdict = "unknown"
	}
	if best.verdict == "error" {
		best.out = strings.Join(errs, "; ")
	}
	return best
}

func firstLine(s string) string {
	return strings.TrimSpace(strings.SplitN(s, "\n", 2)[0])
}

func (c *FnCtx) preamble() string {
	var b strings.Builder
	b.WriteString("(set-option :produce-models true)\n(set-logic ALL)\n")
	for _, n := range c.order {
		b.WriteString(c.decls[n])
		b.WriteByte('\n')
	}
	seen := map[string]bool{}
	for _, a := range c.Axioms {
		if a.IsTrue() || seen[a.S] {
			continue
		}
		seen[a.S] = true
		fmt.Fprintf(&b, "(assert %s)\n", a.S)
	}
	return b.String()
}

func quoteNames(s string) string { return s }

// smtFor renders the query "exists a path in obs where its goal fails".
func (c *FnCtx) smtFor(obs []*Obligation, withModel bool) string {
	var b strings.Builder
	b.WriteString(c.preamble())
	if len(obs) == 1 {
		for _, p := range obs[0].PC {
			fmt.Fprintf(&b, "(assert %s)\n", p.S)
		}
		fmt.Fprintf(&b, "(assert (not %s))\n", obs[0].Goal.S)
	} else {
		// common prefix of the path conditions is asserted once
		n := commonPrefix(obs)
		for _, p := range obs[0].PC[:n] {
			fmt.Fprintf(&b, "(assert %s)\n", p.S)
		}
		b.WriteString("(assert (or\n")
		for _, o := range obs {
			b.WriteString(" (and")
			for _, p := range o.PC[n:] {
				b.WriteByte(' ')
				b.WriteString(p.S)
			}
			fmt.Fprintf(&b, " (not %s))\n", o.Goal.S)
		}
		b.WriteString("))\n")
	}
	b.WriteString("(check-sat)\n")
	if withModel && len(obs) == 1 {
		if ws := witnessTerms(obs[0]); len(ws) > 0 {
			b.WriteString("(get-value (")
			b.WriteString(strings.Join(ws, " "))
			b.WriteString("))\n")
		}
	}
	return b.String()
}

// smtRelaxed drops quantified assumptions and axioms (used only to get candidate inputs).
func (c *FnCtx) smtRelaxed(o *Obligation) string {
	var b strings.Builder
	b.WriteString("(set-option :produce-models true)\n(set-logic ALL)\n")
	for _, n := range c.order {
		b.WriteString(c.decls[n])
		b.WriteByte('\n')
	}
	for _, a := range c.Axioms {
		if !strings.Contains(a.S, "(forall ") && !strings.Contains(a.S, "(exists ") {
			fmt.Fprintf(&b, "(assert %s)\n", a.S)
		}
	}
	for _, p := range o.PC {
		if !strings.Contains(p.S, "(forall ") && !strings.Contains(p.S, "(exists ") {
			fmt.Fprintf(&b, "(assert %s)\n", p.S)
		}
	}
	fmt.Fprintf(&b, "(assert (not %s))\n", o.Goal.S)
	b.WriteString("(check-sat)\n")
	if ws := witnessTerms(o); len(ws) > 0 {
		b.WriteString("(get-value (")
		b.WriteString(strings.Join(ws, " "))
		b.WriteString("))\n")
	}
	return b.String()
}

func commonPrefix(obs []*Obligation) int {
	n := len(obs[0].PC)
	for _, o := range obs[1:] {
		if len(o.PC) < n {
			n = len(o.PC)
		}
		for i := 0; i < n; i++ {
			if o.PC[i].S != obs[0].PC[i].S {
				n = i
				break
			}
		}
	}
	return n
}

// Discharge decides all obligations of the function: first group-wise (one query per
// kind/label), then individually for groups that are not proved as a whole.
func (c *FnCtx) Discharge(sc *SolverCfg) {
	groups := map[string][]*Obligation{}
	var order []string
	for _, o := range c.Obls {
		g := o.Kind + ":" + o.Label
		if o.Kind == "canary" {
			// one vacuity query per return statement: some path must reach each of them
			g = fmt.Sprintf("canary:%s:%d", o.Pos.Filename, o.Pos.Line)
		}
		if o.Quick {
			g = "quick!" + o.Name + "@" + o.Path
		}
		if _, ok := groups[g]; !ok {
			order = append(order, g)
		}
		groups[g] = append(groups[g], o)
	}
	sort.Strings(order)
	var wg sync.WaitGroup
	fileN := 0
	var mu sync.Mutex
	nextFile := func(tag string) string {
		mu.Lock()
		defer mu.Unlock()
		fileN++
		return filepath.Join(sc.Dir, fmt.Sprintf("%s.%03d.%s.smt2", smtName(c.Key), fileN, smtName(tag)))
	}
	solveOne := func(o *Obligation) {
		f := nextFile(o.Kind + "." + o.Label)
		os.WriteFile(f, []byte(c.smtFor([]*Obligation{o}, true)), 0o644)
		if o.Quick {
			short := *sc
			if short.TimeoutS > 3 {
				short.TimeoutS = 3
			}
			r := short.race(f)
			o.Verdict, o.Solver, o.TimeS = r.verdict, r.solver, r.time
			if r.verdict != "unsat" {
				o.Model, o.File = r.out, f
			} else {
				os.Remove(f)
			}
			return
		}
		r := sc.race(f)
		o.Verdict, o.Solver, o.TimeS = r.verdict, r.solver, r.time
		if r.verdict != "unsat" && r.verdict != "sat" {
			// undecided: split the goal into its conjuncts and prove each one separately
			if parts := SplitTerm(o.Goal); len(parts) > 1 && len(parts) <= 64 {
				all := true
				var tot float64
				var wgp sync.WaitGroup
				res := make([]solveResult, len(parts))
				for i, g := range parts {
					wgp.Add(1)
					go func(i int, g Term) {
						defer wgp.Done()
						fp := nextFile(o.Kind + "." + o.Label + ".part")
						os.WriteFile(fp, []byte(c.smtFor([]*Obligation{{PC: o.PC, Goal: g}}, false)), 0o644)
						res[i] = sc.race(fp)
						if res[i].verdict == "unsat" {
							os.Remove(fp)
						}
					}(i, g)
				}
				wgp.Wait()
				for _, rr := range res {
					tot += rr.time
					if rr.verdict != "unsat" {
						all = false
					}
				}
				if all {
					o.Verdict, o.Solver, o.TimeS = "unsat", res[0].solver+"(split)", r.time+tot
					os.Remove(f)
					return
				}
			}
		}
		if r.verdict != "unsat" {
			o.Model = r.out
			o.File = f
			if r.verdict != "sat" {
				// no model: retry without quantified assumptions, only to obtain candidate
				// input values for the replay (the verdict stays as it is)
				f2 := f + ".relaxed.smt2"
				os.WriteFile(f2, []byte(c.smtRelaxed(o)), 0o644)
				r2 := sc.race(f2)
				if r2.verdict == "sat" {
					o.Model = "verdict of the full query: " + r.verdict + "; model of the quantifier-free relaxation:\n" + r2.out
					o.Relaxed = true
				}
			}
		} else {
			os.Remove(f)
		}
	}
	// cover check: every call site of the function must lie on a path whose final path condition
	// is not refutable (a contradictory callee contract or ghost update would otherwise make the
	// rest of that path vacuously "proved"). Sites reached by the same set of exits share a query.
	{
		var cans []*Obligation
		for _, o := range c.Obls {
			if o.Kind == "canary" {
				cans = append(cans, o)
			}
		}
		bySite := map[string][]int{}
		for i, o := range cans {
			for _, s := range o.Sites {
				bySite[s] = append(bySite[s], i)
			}
		}
		byKey := map[string][]string{}
		keyObs := map[string][]*Obligation{}
		for s, idx := range bySite {
			if len(idx) == len(cans) {
				continue // on every exit path: covered by the per-return queries
			}
			k := fmt.Sprint(idx)
			byKey[k] = append(byKey[k], s)
			if keyObs[k] == nil {
				for _, i := range idx {
					keyObs[k] = append(keyObs[k], cans[i])
				}
			}
		}
		var mu sync.Mutex
		for k, obs := range keyObs {
			wg.Add(1)
			go func(k string, obs []*Obligation) {
				defer wg.Done()
				f := nextFile("cover")
				os.WriteFile(f, []byte(c.smtFor(obs, false)), 0o644)
				short := *sc
				if short.TimeoutS > 2 {
					short.TimeoutS = 2
				}
				r := short.race(f)
				if os.Getenv("GOVC_KEEP") == "" || r.verdict != "unsat" {
					os.Remove(f)
				}
				if r.verdict == "unsat" {
					mu.Lock()
					for _, site := range byKey[k] {
						if c.C != nil && c.C.Dead[site] {
							c.note("dead code acknowledged in the contract: no path continues after " + site)
							continue
						}
						c.VacuousSites = append(c.VacuousSites, site)
					}
					mu.Unlock()
				}
			}(k, obs)
		}
	}
	for _, g := range order {
		obs := groups[g]
		wg.Add(1)
		go func(g string, obs []*Obligation) {
			defer wg.Done()
			if strings.HasPrefix(g, "canary:") {
				// vacuity guard: "false" at the exits must NOT be provable. One query over all exits.
				f := nextFile("canary")
				os.WriteFile(f, []byte(c.smtFor(obs, false)), 0o644)
				short := *sc
				if short.TimeoutS > 3 {
					short.TimeoutS = 3
				}
				r := short.race(f)
				os.Remove(f)
				for _, o := range obs {
					o.Verdict, o.Solver, o.TimeS = r.verdict, r.solver, 0
				}
				return
			}
			const chunk = 40
			for i := 0; i < len(obs); i += chunk {
				j := i + chunk
				if j > len(obs) {
					j = len(obs)
				}
				part := obs[i:j]
				if len(part) > 1 {
					f := nextFile("group." + g)
					os.WriteFile(f, []byte(c.smtFor(part, false)), 0o644)
					r := sc.race(f)
					if r.verdict == "unsat" {
						os.Remove(f)
						for _, o := range part {
							o.Verdict, o.Solver, o.TimeS = "unsat", r.solver, r.time/float64(len(part))
						}
						continue
					}
					os.Remove(f)
				}
				var wg2 sync.WaitGroup
				for _, o := range part {
					wg2.Add(1)
					go func(o *Obligation) { defer wg2.Done(); solveOne(o) }(o)
				}
				wg2.Wait()
			}
		}(g, obs)
	}
	wg.Wait()
}

// Retry decides an undecided obligation once more with a longer time limit (the whole goal, then its conjuncts).
// It is used by the check for a handful of undecided obligations only: a verdict "timeout"/"unknown" that comes
// from a loaded machine must not be reported as a violation, while a tree that really breaks a contract usually
// leaves many obligations undecided or yields models, and is not delayed by this.
var (
	retryMu sync.Mutex
	retryN  int
)

func (c *FnCtx) Retry(sc *SolverCfg, o *Obligation, factor float64) bool {
	long := *sc
	long.TimeoutS = sc.TimeoutS * factor
	retryMu.Lock()
	retryN++
	n := retryN
	retryMu.Unlock()
	// the whole goal and its conjuncts are attempted at the same time: the obligation is decided when the whole
	// goal is refuted-free (unsat) or every conjunct is
	var wg sync.WaitGroup
	var whole solveResult
	wg.Add(1)
	go func() {
		defer wg.Done()
		f := filepath.Join(sc.Dir, fmt.Sprintf("%s.retry%d.%s.smt2", smtName(c.Key), n, smtName(o.Kind+"."+o.Label)))
		os.WriteFile(f, []byte(c.smtFor([]*Obligation{o}, false)), 0o644)
		whole = long.race(f)
		os.Remove(f)
	}()
	parts := SplitTerm(o.Goal)
	if len(parts) <= 1 || len(parts) > 64 {
		parts = nil
	}
	res := make([]solveResult, len(parts))
	for i, g := range parts {
		wg.Add(1)
		go func(i int, g Term) {
			defer wg.Done()
			fp := filepath.Join(sc.Dir, fmt.Sprintf("%s.retry%d.%s.part%d.smt2", smtName(c.Key), n, smtName(o.Kind+"."+o.Label), i))
			os.WriteFile(fp, []byte(c.smtFor([]*Obligation{{PC: o.PC, Goal: g}}, false)), 0o644)
			res[i] = long.race(fp)
			os.Remove(fp)
		}(i, g)
	}
	wg.Wait()
	if whole.verdict == "unsat" {
		o.Verdict, o.Solver, o.TimeS = "unsat", whole.solver+"(retry)", o.TimeS+whole.time
		return true
	}
	if whole.verdict == "sat" || len(parts) == 0 {
		return false
	}
	var tot float64
	for _, rr := range res {
		tot += rr.time
		if rr.verdict != "unsat" {
			return false
		}
	}
	o.Verdict, o.Solver, o.TimeS = "unsat", "split(retry)", o.TimeS+tot
	return true
}

// SplitConj splits a top-level (and ...) into its conjuncts.
func SplitConj(t Term) []Term {
	s := t.S
	if !strings.HasPrefix(s, "(and ") {
		return []Term{t}
	}
	body := s[5 : len(s)-1]
	var out []Term
	depth, start := 0, 0
	for i := 0; i < len(body); i++ {
		switch body[i] {
		case '(':
			depth++
		case ')':
			depth--
		case ' ':
			if depth == 0 {
				if i > start {
					out = append(out, SplitConj(Term{body[start:i], SBool})...)
				}
				start = i + 1
			}
		}
	}
	if start < len(body) {
		out = append(out, SplitConj(Term{body[start:], SBool})...)
	}
	return out
}

// Explain re-checks every top-level conjunct of a failed obligation's goal.
func (c *FnCtx) Explain(sc *SolverCfg, o *Obligation) []string {
	var out []string
	for i, g := range SplitTerm(o.Goal) {
		sub := &Obligation{PC: o.PC, Goal: g}
		f := filepath.Join(sc.Dir, fmt.Sprintf("explain.%d.smt2", i))
		os.WriteFile(f, []byte(c.smtFor([]*Obligation{sub}, false)), 0o644)
		r := sc.race(f)
		if r.verdict != "unsat" {
			out = append(out, fmt.Sprintf("conjunct %d %s: %s", i, r.verdict, truncate(g.S, 300)))
		}
	}
	return out
}
