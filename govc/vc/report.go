package vc

import (
	"encoding/json"
	"fmt"
	"os"
	"path/filepath"
	"regexp"
	"sort"
	"strings"
	"sync"
	"time"
)

// supporting obligation kinds: needed for the modular soundness of every labelled result
var supportingKinds = map[string]bool{
	"pre": true, "frame": true, "inv-entry": true, "inv-preserved": true, "decreases": true,
	"panic": true, "assert": true, "crash_inv": true, "footprint": true,
	// unlabelled postconditions are what callers assume: they are decided wherever the function is
	"ensures": true, "panic_ensures": true,
}

// safety kinds: run-time panics, counted for C15
var safetyKinds = map[string]bool{
	"nil": true, "bounds": true, "typeassert": true, "div": true, "panic": true, "pre": true, "assert": true,
}

type KnownFinding struct {
	Status     string `json:"status"` // known | fixed
	Property   string `json:"property"`
	Obligation string `json:"obligation"`
	Path       string `json:"path"`
	What       string `json:"what"`
	Commit     string `json:"commit,omitempty"`
}

type KnownFile struct {
	Findings []KnownFinding `json:"findings"`
}

func LoadKnown(path string) (*KnownFile, error) {
	kf := &KnownFile{}
	data, err := os.ReadFile(path)
	if err != nil {
		if os.IsNotExist(err) {
			return kf, nil
		}
		return nil, err
	}
	if err := json.Unmarshal(data, kf); err != nil {
		return nil, err
	}
	return kf, nil
}

func (kf *KnownFile) match(prop string, o *Obligation) *KnownFinding {
	for i := range kf.Findings {
		f := &kf.Findings[i]
		if f.Status == "known" && f.Obligation == o.Name && f.Path == o.Path && (f.Property == prop || labelHasProp(o.Label, f.Property)) {
			return f
		}
	}
	return nil
}

// counts tells whether obligation o is decided by the check of property prop.
func counts(sp *Specs, prop string, o *Obligation) bool {
	if o.Kind == "canary" {
		return false
	}
	if o.Label != "" {
		return sp.labelCounts(o.Label, prop)
	}
	if prop == "C15" {
		return safetyKinds[o.Kind] || supportingKinds[o.Kind]
	}
	return supportingKinds[o.Kind]
}

type CheckResult struct {
	Prop       string
	Tier       string
	Funcs      []*FnCtx
	Counted    []*Obligation
	Failed     []*Obligation
	Known      []*Obligation
	KnownWhat  map[*Obligation]*KnownFinding
	GenErrors  []string
	Vacuous    []string
	Retried    []string // obligations decided only at the second attempt with a longer time limit
	Wall       float64
	SolverTime float64
	BySolver   map[string]int
	BoundedOK  int
	Replays    map[*Obligation]string
	NoInput    map[*Obligation]bool
}

type CheckOpts struct {
	Prop      string
	Tier      string
	VerifDir  string
	Timeout   float64
	Par       int
	Seed      int
	OnlyFuncs []string
}

func (e *Engine) RunCheck(opt CheckOpts) *CheckResult {
	t0 := time.Now()
	res := &CheckResult{Prop: opt.Prop, Tier: opt.Tier, KnownWhat: map[*Obligation]*KnownFinding{}, BySolver: map[string]int{},
		Replays: map[*Obligation]string{}, NoInput: map[*Obligation]bool{}}
	known, err := LoadKnown(filepath.Join(opt.VerifDir, "known_findings.json"))
	if err != nil {
		res.GenErrors = append(res.GenErrors, "known_findings.json: "+err.Error())
		known = &KnownFile{}
	}
	keys := e.FunctionsFor(opt.Prop)
	if len(opt.OnlyFuncs) > 0 {
		keys = opt.OnlyFuncs
	}
	oblDir := filepath.Join(opt.VerifDir, "obl", opt.Prop)
	os.RemoveAll(oblDir)
	sc := NewSolverCfg(oblDir, opt.Timeout, opt.Par)
	for _, k := range keys {
		ctx := e.VerifyFunc(k)
		res.Funcs = append(res.Funcs, ctx)
		for _, er := range ctx.Errs {
			res.GenErrors = append(res.GenErrors, er)
		}
	}
	var wg sync.WaitGroup
	for _, ctx := range res.Funcs {
		// only decide what this property needs
		var keep []*Obligation
		for _, o := range ctx.Obls {
			// `props Cxx` on a contract: the property depends on everything this function guarantees
			// (e.g. log matching on the segmented log returning what was stored), so all its
			// obligations count for Cxx as well
			viaProps := false
			if ctx.C != nil && o.Kind != "canary" {
				cov := e.Specs.covers(opt.Prop)
				for _, p := range ctx.C.Props {
					if cov[p] {
						viaProps = true
					}
				}
			}
			// a function selected for the property is decided completely: a clause labelled for another
			// property in the same function is very often a premise of this one (lesson of the seeded
			// defects: most misses were clauses that existed but counted for a different property)
			wholeFn := o.Kind != "canary"
			if counts(e.Specs, opt.Prop, o) || viaProps || wholeFn || o.Kind == "canary" {
				keep = append(keep, o)
			}
		}
		ctx.Obls = keep
		for _, o := range keep {
			if known.match(opt.Prop, &Obligation{Name: o.Name, Path: o.Path, Label: o.Label}) != nil {
				o.Quick = true
			}
		}
		wg.Add(1)
		go func(ctx *FnCtx) {
			defer wg.Done()
			ctx.Discharge(sc)
		}(ctx)
	}
	wg.Wait()
	// second chance for a handful of undecided obligations (never for refuted ones): see FnCtx.Retry
	{
		type und struct {
			ctx *FnCtx
			o   *Obligation
		}
		var undecided []und
		for _, ctx := range res.Funcs {
			for _, o := range ctx.Obls {
				if o.Kind == "canary" || o.Quick || o.Verdict == "unsat" || o.Verdict == "sat" {
					continue
				}
				undecided = append(undecided, und{ctx, o})
			}
		}
		if n := len(undecided); n > 0 && n <= 8 {
			// all at once: the extra cost on a tree that really breaks a contract stays at one long query
			ok := make([]bool, n)
			var wg2 sync.WaitGroup
			for i, u := range undecided {
				wg2.Add(1)
				go func(i int, u und) {
					defer wg2.Done()
					ok[i] = u.ctx.Retry(sc, u.o, 3)
				}(i, u)
			}
			wg2.Wait()
			for i, u := range undecided {
				if ok[i] {
					res.Retried = append(res.Retried, u.o.Name)
				}
			}
		}
	}
	for _, ctx := range res.Funcs {
		ncan, ncanUnsat := 0, 0
		for _, o := range ctx.Obls {
			if o.Kind == "canary" {
				ncan++
				if o.Verdict == "unsat" {
					ncanUnsat++
				}
				continue
			}
			res.SolverTime += o.TimeS
			if o.Verdict == "unsat" {
				res.BySolver[o.Solver]++
				if ctx.Bounded {
					// bounded stand-in: explored up to the stated unrolling bound, never counted as proved
					res.BoundedOK++
					continue
				}
				res.Counted = append(res.Counted, o)
				continue
			}
			if kf := known.match(opt.Prop, o); kf != nil {
				res.Known = append(res.Known, o)
				res.KnownWhat[o] = kf
				continue
			}
			res.Counted = append(res.Counted, o)
			res.Failed = append(res.Failed, o)
		}
		if ncan > 0 && ncan == ncanUnsat {
			res.Vacuous = append(res.Vacuous, ctx.Key+": every exit is unreachable under the precondition (contradictory requires/invariants)")
		} else if ncanUnsat > 0 {
			// the canaries of one return statement share a verdict: that statement is unreachable
			seen := map[string]bool{}
			for _, o := range ctx.Obls {
				if o.Kind == "canary" && o.Verdict == "unsat" {
					k := fmt.Sprintf("%s:%d", filepath.Base(o.Pos.Filename), o.Pos.Line)
					if !seen[k] {
						seen[k] = true
						res.Vacuous = append(res.Vacuous, ctx.Key+": no path reaches the return at "+k+" (contradictory contracts on the way, or dead code)")
					}
				}
			}
		}
		if len(ctx.VacuousSites) > 0 {
			sort.Strings(ctx.VacuousSites)
			res.Vacuous = append(res.Vacuous, ctx.Key+": no satisfiable path continues after the call(s) "+strings.Join(ctx.VacuousSites, ", ")+" (contradictory contract, ghost update or invariant)")
		}
		if len(ctx.Errs) == 0 && ctx.Ends == 0 && !ctx.panicOnly {
			res.Vacuous = append(res.Vacuous, ctx.Key+": no path reaches a normal exit")
		}
	}
	res.Wall = time.Since(t0).Seconds()
	return res
}

var unsafeFile = regexp.MustCompile(`[^A-Za-z0-9_.\-]+`)

// WriteReplay writes the replay file of a failed obligation and returns its path.
func (res *CheckResult) WriteReplay(dir string, ctx *FnCtx, o *Obligation, extra string) string {
	os.MkdirAll(dir, 0o755)
	name := unsafeFile.ReplaceAllString(res.Prop+"__"+o.Name+"__"+fmt.Sprintf("%08x", hashString(o.Path)), "_")
	if len(name) > 180 {
		name = name[:180]
	}
	path := filepath.Join(dir, name+".txt")
	var b strings.Builder
	fmt.Fprintf(&b, "property: %s\nobligation: %s\npath: %s\nposition: %s\nverdict: %s (%s, %.2fs)\n", res.Prop, o.Name, o.Path, o.Pos, o.Verdict, o.Solver, o.TimeS)
	fmt.Fprintf(&b, "goal: %s\n", o.Goal.S)
	if extra != "" {
		b.WriteString(extra)
		b.WriteString("\n")
	}
	b.WriteString("---- solver output ----\n")
	b.WriteString(o.Model)
	b.WriteString("\n---- SMT query: ")
	b.WriteString(o.File)
	b.WriteString(" ----\n")
	os.WriteFile(path, []byte(b.String()), 0o644)
	return path
}

func hashString(s string) uint32 {
	var h uint32 = 2166136261
	for i := 0; i < len(s); i++ {
		h ^= uint32(s[i])
		h *= 16777619
	}
	return h
}

// Evidence renders the evidence JSON.
func (res *CheckResult) Evidence(opt CheckOpts, cmdline string) map[string]interface{} {
	trusted := map[string]bool{}
	assumptions := map[string]bool{}
	var fnames []string
	bounded := []string{}
	uncontracted := map[string]bool{}
	for _, ctx := range res.Funcs {
		fnames = append(fnames, ctx.Key)
		for n := range ctx.Notes {
			assumptions[n] = true
			if strings.HasPrefix(n, "bounded:") {
				bounded = append(bounded, n)
			}
		}
		for c := range ctx.Callees {
			if v := ctx.E.Specs.Views[ctx.Fn.Pkg.Pkg.Path()+"|"+c]; v != nil {
				trusted["trusted abstract view (assumed at this package's call sites): "+c] = true
			} else if ct := ctx.E.Specs.Contracts[c]; ct != nil && ct.Trusted {
				trusted["trusted contract (assumed, body not verified): "+c] = true
			} else if ct == nil {
				uncontracted[c] = true
			}
		}
	}
	trusted["T-gen: the VC generator govc (go/ssa -> SMT) and go/ssa itself"] = true
	trusted["T-smt: an unsat answer of z3 4.8.12 / z3 5.1.0 / cvc5 1.0 is correct"] = true
	trusted["machine integers: modelled exactly (two's-complement wrap-around on SMT Int); spec-level arithmetic is mathematical"] = true
	trusted["heap: objects reached from parameters are assumed allocated before the call; fresh allocations are distinct from them"] = true
	var samples []map[string]interface{}
	for i, o := range res.Counted {
		if i%((len(res.Counted)/3)+1) == 0 && len(samples) < 4 {
			samples = append(samples, map[string]interface{}{
				"obligation": o.Name, "path": o.Path, "kind": o.Kind, "goal": truncate(o.Goal.S, 400),
				"assumptions_in_pc": len(o.PC), "verdict": o.Verdict, "solver": o.Solver, "time_s": round3(o.TimeS),
			})
		}
	}
	var per []map[string]interface{}
	agg := map[string]*struct {
		n, ok int
		t     float64
		s     map[string]int
	}{}
	var aggOrder []string
	for _, o := range res.Counted {
		a := agg[o.Name]
		if a == nil {
			a = &struct {
				n, ok int
				t     float64
				s     map[string]int
			}{s: map[string]int{}}
			agg[o.Name] = a
			aggOrder = append(aggOrder, o.Name)
		}
		a.n++
		if o.Verdict == "unsat" {
			a.ok++
			a.s[o.Solver]++
		}
		a.t += o.TimeS
	}
	for _, n := range aggOrder {
		a := agg[n]
		per = append(per, map[string]interface{}{"obligation": n, "paths": a.n, "discharged": a.ok, "solver_time_s": round3(a.t), "by_solver": a.s})
	}
	var knownL []map[string]interface{}
	for _, o := range res.Known {
		knownL = append(knownL, map[string]interface{}{"obligation": o.Name, "path": o.Path, "what": res.KnownWhat[o].What})
	}
	var failedL []map[string]interface{}
	for _, o := range res.Failed {
		failedL = append(failedL, map[string]interface{}{"obligation": o.Name, "path": o.Path, "verdict": o.Verdict, "replay": res.Replays[o], "no_failing_input_found": res.NoInput[o]})
	}
	sort.Strings(fnames)
	cov := map[string]interface{}{
		"obligations":              len(res.Counted),
		"discharged":               len(res.Counted) - len(res.Failed),
		"checker_cmd":              cmdline,
		"trusted_base":             sortedKeys(trusted),
		"functions_under_contract": fnames,
		"callees_without_contract": sortedKeys(uncontracted),
		"by_solver":                res.BySolver,
		"solver_time_s":            round3(res.SolverTime),
		"per_obligation":           per,
		"known_findings":           knownL,
		"failed":                   failedL,
		"bounded_standins":         bounded,
		"bounded_obligations_held": res.BoundedOK,
		"generator_errors":         res.GenErrors,
		"vacuity":                  map[string]interface{}{"vacuous_functions": res.Vacuous, "canary": "an 'assert false' at every normal exit must not be provable"},
		"decided_at_second_attempt": res.Retried,
		"samples":                  samples,
	}
	return map[string]interface{}{
		"property_id": res.Prop,
		"tier":        res.Tier,
		"seed":        opt.Seed,
		"level":       "proof",
		"coverage":    cov,
		"assumptions": sortedKeys(assumptions),
		"wall_s":      round3(res.Wall),
		"violations":  len(res.Failed) + len(res.GenErrors) + len(res.Vacuous),
	}
}

func truncate(s string, n int) string {
	if len(s) > n {
		return s[:n] + "..."
	}
	return s
}

func round3(f float64) float64 { return float64(int(f*1000+0.5)) / 1000 }
