package vc

import (
	"fmt"
	"go/types"
	"strings"
)

// pathType walks field indexes from root and returns the sub-type and leaf-path prefix.
func pathType(root types.Type, path []int) (types.Type, string) {
	t := root
	var names []string
	for _, i := range path {
		switch u := t.Underlying().(type) {
		case *types.Struct:
			names = append(names, u.Field(i).Name())
			t = u.Field(i).Type()
		case *types.Array:
			names = append(names, fmt.Sprintf("a%d", i))
			t = u.Elem()
		default:
			panic(unsupported(fmt.Sprintf("pathType: %s is not a struct/array", t)))
		}
	}
	return t, strings.Join(names, ".")
}

func joinLeaf(prefix, p string) string {
	if prefix == "" {
		return p
	}
	if p == "" {
		return prefix
	}
	return prefix + "." + p
}

func heapKey(root types.Type, leafPath string) string {
	return "H." + typeKey(root) + "." + leafPath
}

func elemKey(elem types.Type, leafPath string) string {
	return "E." + typeKey(elem) + "." + leafPath
}

func mapKey(mt types.Type, leafPath string) string {
	return "M." + typeKey(mt) + "." + leafPath
}

// walkVal descends into a composite value along path.
func walkVal(v Val, path []int) Val {
	for _, i := range path {
		switch c := v.(type) {
		case *StructV:
			v = c.F[i]
		case *ArrayV:
			v = c.E[i]
		default:
			panic(unsupported(fmt.Sprintf("walkVal: %T", v)))
		}
	}
	return v
}

// updateVal returns a copy of v with the sub-value at path replaced.
func updateVal(v Val, path []int, nv Val) Val {
	if len(path) == 0 {
		return nv
	}
	switch c := v.(type) {
	case *StructV:
		n := &StructV{T: c.T, F: append([]Val(nil), c.F...)}
		n.F[path[0]] = updateVal(c.F[path[0]], path[1:], nv)
		return n
	case *ArrayV:
		n := &ArrayV{Elem: c.Elem, E: append([]Val(nil), c.E...)}
		n.E[path[0]] = updateVal(c.E[path[0]], path[1:], nv)
		return n
	}
	panic(unsupported(fmt.Sprintf("updateVal: %T", v)))
}

func (x *exec) load(st *State, p *PtrV) Val {
	switch {
	case p.Cell != nil:
		v, ok := st.cells[p.Cell.ID]
		if !ok {
			panic(unsupported("load from unknown cell " + p.Cell.Name))
		}
		return walkVal(v, p.Path)
	case p.Glob != nil:
		return x.loadGlobal(st, p)
	}
	t, prefix := pathType(p.Root, p.Path)
	ls := leavesOf(t)
	ts := make([]Term, len(ls))
	for i, l := range ls {
		lp := joinLeaf(prefix, l.Path)
		if p.Elem {
			arr := x.getHeap(st, elemKey(p.Root, lp), ArrSort(SInt, ArrSort(SInt, l.Sort)))
			ts[i] = Select(Select(arr, p.Obj), p.Idx)
		} else {
			arr := x.getHeap(st, heapKey(p.Root, lp), ArrSort(SInt, l.Sort))
			ts[i] = Select(arr, p.Obj)
		}
		x.assumeLeafOwned(st, l, ts[i], p.Obj)
	}
	v := unflattenVal(ts, t)
	if sv, ok := v.(*SliceV); ok {
		st.assume(Le(sv.Len, sv.Cap))
	}
	return v
}

func (x *exec) store(st *State, p *PtrV, v Val) {
	switch {
	case p.Cell != nil:
		old, ok := st.cells[p.Cell.ID]
		if !ok {
			panic(unsupported("store to unknown cell " + p.Cell.Name))
		}
		x.setCell(st, p.Cell.ID, updateVal(old, p.Path, v))
		return
	case p.Glob != nil:
		panic(unsupported("store to global " + p.Glob.Name()))
	}
	t, prefix := pathType(p.Root, p.Path)
	ls := leavesOf(t)
	ts := flattenVal(v, t)
	for i, l := range ls {
		lp := joinLeaf(prefix, l.Path)
		if p.Elem {
			key := elemKey(p.Root, lp)
			arr := x.getHeap(st, key, ArrSort(SInt, ArrSort(SInt, l.Sort)))
			obj := p.Obj
			x.setHeap(st, key, Store(arr, p.Obj, Store(Select(arr, p.Obj), p.Idx, ts[i])), &obj)
		} else {
			key := heapKey(p.Root, lp)
			arr := x.getHeap(st, key, ArrSort(SInt, l.Sort))
			obj := p.Obj
			x.setHeap(st, key, Store(arr, p.Obj, ts[i]), &obj)
		}
	}
}

// loadGlobal models package-level variables as immutable constants.
func (x *exec) loadGlobal(st *State, p *PtrV) Val {
	g := p.Glob
	t, prefix := pathType(deref(g.Type()), p.Path)
	ls := leavesOf(t)
	ts := make([]Term, len(ls))
	pk := "ext"
	if g.Pkg != nil {
		pk = g.Pkg.Pkg.Name()
	}
	for i, l := range ls {
		name := "GL." + pk + "." + g.Name() + "." + joinLeaf(prefix, l.Path)
		ts[i] = x.ctx.declare(smtName(name), l.Sort)
		if l.Kind == LRef {
			st.assume(Le(Zero, ts[i]))
		} else {
			x.assumeLeaf(st, l, ts[i])
		}
	}
	v := unflattenVal(ts, t)
	if _, ok := t.Underlying().(*types.Signature); ok {
		fv := v.(*FuncV)
		fv.Var = g.Name()
	}
	// package-level error sentinels: non-nil and pairwise distinct
	if iv, ok := v.(*IfaceV); ok && len(p.Path) == 0 && isErrSentinel(g.Name()) {
		st.assume(Gt(iv.Tag, Zero))
		x.sentinels[g.Name()+"@"+pk] = iv
		for k, o := range x.sentinels {
			if k != g.Name()+"@"+pk {
				st.assume(Not(And(Eq(o.Tag, iv.Tag), Eq(o.Pay, iv.Pay))))
			}
		}
	}
	return v
}

func isErrSentinel(name string) bool {
	return strings.HasPrefix(name, "Err") || strings.HasPrefix(name, "err") || name == "EOF"
}

// ---- maps ------------------------------------------------------------------

func (x *exec) mapHas(st *State, mt types.Type, m Term) Term {
	arr := x.getHeap(st, mapKey(mt, "has"), ArrSort(SInt, ArrSort(SInt, SBool)))
	return Select(arr, m)
}

func (x *exec) mapKeyTerm(k Val, mt *types.Map) Term {
	t, ok := k.(Term)
	if !ok {
		panic(unsupported(fmt.Sprintf("map key of type %s", mt.Key())))
	}
	return t
}

// mapLookup returns (value, present). The value is the zero value when absent.
func (x *exec) mapLookup(st *State, mt *types.Map, m Term, k Term) (Val, Term) {
	has := Select(x.mapHas(st, mt, m), k)
	ls := leavesOf(mt.Elem())
	ts := make([]Term, len(ls))
	for i, l := range ls {
		arr := x.getHeap(st, mapKey(mt, "v."+l.Path), ArrSort(SInt, ArrSort(SInt, l.Sort)))
		raw := Select(Select(arr, m), k)
		x.assumeLeafOwned(st, l, raw, m)
		ts[i] = Ite(has, raw, zeroLeaf(l))
	}
	// a nil map has no keys
	st.assume(Implies(Eq(m, Zero), Not(has)))
	return unflattenVal(ts, mt.Elem()), has
}

func (x *exec) mapUpdate(st *State, mt *types.Map, m Term, k Term, v Val) {
	hk := mapKey(mt, "has")
	harr := x.getHeap(st, hk, ArrSort(SInt, ArrSort(SInt, SBool)))
	x.setHeap(st, hk, Store(harr, m, Store(Select(harr, m), k, True)), &m)
	ls := leavesOf(mt.Elem())
	ts := flattenVal(v, mt.Elem())
	for i, l := range ls {
		key := mapKey(mt, "v."+l.Path)
		arr := x.getHeap(st, key, ArrSort(SInt, ArrSort(SInt, l.Sort)))
		x.setHeap(st, key, Store(arr, m, Store(Select(arr, m), k, ts[i])), &m)
	}
}

func (x *exec) mapDelete(st *State, mt *types.Map, m Term, k Term) {
	hk := mapKey(mt, "has")
	harr := x.getHeap(st, hk, ArrSort(SInt, ArrSort(SInt, SBool)))
	x.setHeap(st, hk, Store(harr, m, Store(Select(harr, m), k, False)), &m)
}

func (x *exec) mapLen(st *State, mt types.Type, m Term) Term {
	x.useSetLib()
	has := x.mapHas(st, mt, m)
	c := app(SInt, "card", has)
	st.assume(And(Ge(c, Zero), Le(c, BigLit(p2(48)))))
	return c
}

// useSetLib declares the finite-set library (T-set): card(S) and cntv(V, S) = |{k in S | V[k]}|.
func (x *exec) useSetLib() {
	c := x.ctx
	if c.setLib {
		return
	}
	c.setLib = true
	bs := ArrSort(SInt, SBool)
	c.declareFun("card", []Sort{bs}, SInt)
	c.declareFun("cntv", []Sort{bs, bs}, SInt)
	c.declareFun("wv", []Sort{bs, bs}, SInt)
	ax := func(s string) { c.Axioms = append(c.Axioms, Term{s, SBool}) }
	empty := "((as const (Array Int Bool)) false)"
	ax("(= (card " + empty + ") 0)")
	ax("(forall ((S (Array Int Bool))) (! (>= (card S) 0) :pattern ((card S))))")
	ax("(forall ((S (Array Int Bool)) (k Int)) (! (=> (not (select S k)) (= (card (store S k true)) (+ (card S) 1))) :pattern ((card (store S k true)))))")
	ax("(forall ((S (Array Int Bool)) (k Int)) (! (=> (select S k) (= (card (store S k false)) (- (card S) 1))) :pattern ((card (store S k false)))))")
	ax("(forall ((S (Array Int Bool)) (k Int)) (! (=> (select S k) (= (card (store S k true)) (card S))) :pattern ((card (store S k true)))))")
	ax("(forall ((S (Array Int Bool)) (k Int)) (! (=> (not (select S k)) (= (card (store S k false)) (card S))) :pattern ((card (store S k false)))))")
	ax("(forall ((V (Array Int Bool))) (! (= (cntv V " + empty + ") 0) :pattern ((cntv V " + empty + "))))")
	ax("(forall ((V (Array Int Bool)) (S (Array Int Bool))) (! (and (<= 0 (cntv V S)) (<= (cntv V S) (card S))) :pattern ((cntv V S))))")
	ax("(forall ((V (Array Int Bool)) (S (Array Int Bool)) (k Int)) (! (=> (not (select S k)) (= (cntv V (store S k true)) (+ (cntv V S) (ite (select V k) 1 0)))) :pattern ((cntv V (store S k true)))))")
	ax("(forall ((V (Array Int Bool)) (S (Array Int Bool)) (k Int)) (! (=> (select S k) (= (cntv V (store S k true)) (cntv V S))) :pattern ((cntv V (store S k true)))))")
	ax("(forall ((V (Array Int Bool)) (S (Array Int Bool)) (k Int)) (! (=> (select S k) (= (cntv V (store S k false)) (- (cntv V S) (ite (select V k) 1 0)))) :pattern ((cntv V (store S k false)))))")
	ax("(forall ((V (Array Int Bool)) (S (Array Int Bool)) (k Int)) (! (=> (not (select S k)) (= (cntv V (store S k false)) (cntv V S))) :pattern ((cntv V (store S k false)))))")
	ax("(forall ((V (Array Int Bool)) (S (Array Int Bool)) (k Int) (b Bool)) (! (= (cntv (store V k b) S) (+ (cntv V S) (ite (select S k) (- (ite b 1 0) (ite (select V k) 1 0)) 0))) :pattern ((cntv (store V k b) S))))")
	ax("(forall ((V (Array Int Bool)) (S (Array Int Bool))) (! (=> (> (cntv V S) 0) (and (select S (wv V S)) (select V (wv V S)))) :pattern ((cntv V S))))")
	ax("(forall ((V (Array Int Bool)) (S (Array Int Bool)) (k Int)) (! (=> (and (select S k) (select V k)) (>= (cntv V S) 1)) :pattern ((cntv V S) (select S k))))")
	// monotonicity with a skolem witness: card(A) <= card(B) unless some element of A is not in B
	c.declareFun("cardwit", []Sort{bs, bs}, SInt)
	ax("(forall ((A (Array Int Bool)) (B (Array Int Bool))) (! (or (<= (card A) (card B)) (and (select A (cardwit A B)) (not (select B (cardwit A B))))) :pattern ((card A) (card B))))")
	c.note("T-set: finite-set library (card, cntv: 16 axioms over Array Int Bool)")
}

func constArray(sort Sort, v Term) Term {
	return Term{fmt.Sprintf("((as const %s) %s)", sort, v.S), sort}
}

func (x *exec) makeMap(st *State, mt *types.Map) Term {
	ref := x.allocRef(st)
	hk := mapKey(mt, "has")
	harr := x.getHeap(st, hk, ArrSort(SInt, ArrSort(SInt, SBool)))
	x.setHeap(st, hk, Store(harr, ref, constArray(ArrSort(SInt, SBool), False)), &ref)
	return ref
}

// wordAt: the n-byte little-endian word at s[pos:pos+n] as an uninterpreted function of its bytes.
func (x *exec) wordAt(st *State, s *SliceV, pos Term, n int) Term {
	key := elemKey(types.Typ[types.Uint8], "")
	h := x.getHeap(st, key, ArrSort(SInt, ArrSort(SInt, SInt)))
	return x.wordOf(Select(h, s.Arr), Add(s.Off, pos), n)
}

// wordOf: the n-byte little-endian word at absolute position pos of a byte array, as an
// uninterpreted function W(arr, pos) that depends only on those n bytes (T-std).
func (x *exec) wordOf(arr Term, pos Term, n int) Term {
	name := fmt.Sprintf("W%d", n*8)
	bs := ArrSort(SInt, SInt)
	x.ctx.declareFun(name, []Sort{bs, SInt}, SInt)
	if !x.ctx.wordAx[name] {
		x.ctx.wordAx[name] = true
		ax := func(f string) { x.ctx.Axioms = append(x.ctx.Axioms, Term{f, SBool}) }
		ax(fmt.Sprintf("(forall ((a (Array Int Int)) (p Int)) (! (and (<= 0 (%s a p)) (< (%s a p) %s)) :pattern ((%s a p))))", name, name, p2(n*8).String(), name))
		x.ctx.note("T-std: a little-endian word is an uninterpreted function " + name + "(bytes, pos) of the bytes at pos..pos+" + fmt.Sprint(n-1))
	}
	return app(SInt, name, arr, pos)
}

// useCountLib declares the counting library used for order statistics (T-set, part 2):
//   cntge(V, M, S, v) = |{k in S : V[k] and M[k] >= v}|      scge(A, lo, hi, v) = |{j in [lo,hi) : A[j] >= v}|
func (x *exec) useCountLib() {
	c := x.ctx
	x.useSetLib()
	if c.countLib {
		return
	}
	c.countLib = true
	bs, is := ArrSort(SInt, SBool), ArrSort(SInt, SInt)
	c.declareFun("cntge", []Sort{bs, is, bs, SInt}, SInt)
	c.declareFun("scge", []Sort{is, SInt, SInt, SInt}, SInt)
	ax := func(s string) { c.Axioms = append(c.Axioms, Term{s, SBool}) }
	empty := "((as const (Array Int Bool)) false)"
	q := "(V (Array Int Bool)) (M (Array Int Int)) (S (Array Int Bool)) (v Int)"
	ax("(forall ((V (Array Int Bool)) (M (Array Int Int)) (v Int)) (! (= (cntge V M " + empty + " v) 0) :pattern ((cntge V M " + empty + " v))))")
	ax("(forall (" + q + ") (! (and (<= 0 (cntge V M S v)) (<= (cntge V M S v) (cntv V S))) :pattern ((cntge V M S v))))")
	ax("(forall (" + q + " (k Int)) (! (=> (not (select S k)) (= (cntge V M (store S k true) v) (+ (cntge V M S v) (ite (and (select V k) (>= (select M k) v)) 1 0)))) :pattern ((cntge V M (store S k true) v))))")
	ax("(forall (" + q + " (k Int)) (! (=> (select S k) (= (cntge V M (store S k true) v) (cntge V M S v))) :pattern ((cntge V M (store S k true) v))))")
	ax("(forall (" + q + " (k Int)) (! (=> (and (select S k) (select V k) (>= (select M k) v)) (>= (cntge V M S v) 1)) :pattern ((cntge V M S v) (select S k))))")
	// a positive count has a witness
	c.declareFun("wge", []Sort{bs, is, bs, SInt}, SInt)
	ax("(forall (" + q + ") (! (=> (> (cntge V M S v) 0) (and (select S (wge V M S v)) (select V (wge V M S v)) (>= (select M (wge V M S v)) v))) :pattern ((cntge V M S v))))")
	qa := "(A (Array Int Int)) (lo Int) (hi Int) (v Int)"
	ax("(forall ((A (Array Int Int)) (lo Int) (v Int)) (! (= (scge A lo lo v) 0) :pattern ((scge A lo lo v))))")
	ax("(forall (" + qa + ") (! (=> (<= lo hi) (and (<= 0 (scge A lo hi v)) (<= (scge A lo hi v) (- hi lo)))) :pattern ((scge A lo hi v))))")
	ax("(forall (" + qa + ") (! (=> (< lo hi) (= (scge A lo hi v) (+ (scge A lo (- hi 1) v) (ite (>= (select A (- hi 1)) v) 1 0)))) :pattern ((scge A lo hi v))))")
	ax("(forall (" + qa + " (j Int) (x Int)) (! (=> (or (< j lo) (>= j hi)) (= (scge (store A j x) lo hi v) (scge A lo hi v))) :pattern ((scge (store A j x) lo hi v))))")
	c.note("T-set: counting library (cntge, scge: 10 axioms)")
}
