package vc

import (
	"fmt"
	"math/big"
	"strings"
)

// Sort is an SMT-LIB sort, written out.
type Sort string

const (
	SInt  Sort = "Int"
	SBool Sort = "Bool"
)

func ArrSort(idx, el Sort) Sort { return Sort("(Array " + string(idx) + " " + string(el) + ")") }

// elemSort returns the element sort of an array sort "(Array Int X)".
func (s Sort) elem() Sort {
	str := string(s)
	if !strings.HasPrefix(str, "(Array Int ") {
		panic("not an array sort: " + str)
	}
	return Sort(str[len("(Array Int ") : len(str)-1])
}

// Term is an SMT-LIB term in text form with its sort.
type Term struct {
	S    string
	Sort Sort
}

var (
	True  = Term{"true", SBool}
	False = Term{"false", SBool}
	Zero  = Term{"0", SInt}
	One   = Term{"1", SInt}
)

func (t Term) String() string { return t.S }
func (t Term) IsTrue() bool   { return t.S == "true" }
func (t Term) IsFalse() bool  { return t.S == "false" }

func IntLit(v int64) Term {
	if v < 0 {
		return Term{fmt.Sprintf("(- %d)", -v), SInt}
	}
	return Term{fmt.Sprintf("%d", v), SInt}
}

func BigLit(v *big.Int) Term {
	if v.Sign() < 0 {
		return Term{"(- " + new(big.Int).Neg(v).String() + ")", SInt}
	}
	return Term{v.String(), SInt}
}

func BoolLit(b bool) Term {
	if b {
		return True
	}
	return False
}

// litVal parses an integer literal term.
func litVal(t Term) (*big.Int, bool) {
	s := t.S
	neg := false
	if strings.HasPrefix(s, "(- ") && strings.HasSuffix(s, ")") {
		neg = true
		s = s[3 : len(s)-1]
	}
	if s == "" {
		return nil, false
	}
	for _, c := range s {
		if c < '0' || c > '9' {
			return nil, false
		}
	}
	v, ok := new(big.Int).SetString(s, 10)
	if !ok {
		return nil, false
	}
	if neg {
		v.Neg(v)
	}
	return v, true
}

func app(sort Sort, op string, args ...Term) Term {
	var b strings.Builder
	b.WriteByte('(')
	b.WriteString(op)
	for _, a := range args {
		b.WriteByte(' ')
		b.WriteString(a.S)
	}
	b.WriteByte(')')
	return Term{b.String(), sort}
}

func Not(a Term) Term {
	if a.IsTrue() {
		return False
	}
	if a.IsFalse() {
		return True
	}
	if strings.HasPrefix(a.S, "(not ") {
		return Term{a.S[5 : len(a.S)-1], SBool}
	}
	return app(SBool, "not", a)
}

func And(ts ...Term) Term {
	var out []Term
	for _, t := range ts {
		if t.IsFalse() {
			return False
		}
		if t.IsTrue() {
			continue
		}
		out = append(out, t)
	}
	switch len(out) {
	case 0:
		return True
	case 1:
		return out[0]
	}
	return app(SBool, "and", out...)
}

func Or(ts ...Term) Term {
	var out []Term
	for _, t := range ts {
		if t.IsTrue() {
			return True
		}
		if t.IsFalse() {
			continue
		}
		out = append(out, t)
	}
	switch len(out) {
	case 0:
		return False
	case 1:
		return out[0]
	}
	return app(SBool, "or", out...)
}

func Implies(a, b Term) Term {
	if a.IsTrue() {
		return b
	}
	if a.IsFalse() || b.IsTrue() {
		return True
	}
	return app(SBool, "=>", a, b)
}

func Eq(a, b Term) Term {
	if a.S == b.S {
		return True
	}
	if a.Sort != b.Sort {
		panic(fmt.Sprintf("Eq: sort mismatch %s:%s vs %s:%s", a.S, a.Sort, b.S, b.Sort))
	}
	if a.Sort == SBool {
		if a.IsTrue() {
			return b
		}
		if b.IsTrue() {
			return a
		}
		if a.IsFalse() {
			return Not(b)
		}
		if b.IsFalse() {
			return Not(a)
		}
	}
	if av, ok := litVal(a); ok {
		if bv, ok := litVal(b); ok {
			return BoolLit(av.Cmp(bv) == 0)
		}
	}
	return app(SBool, "=", a, b)
}

func Neq(a, b Term) Term { return Not(Eq(a, b)) }

func Ite(c, a, b Term) Term {
	if c.IsTrue() {
		return a
	}
	if c.IsFalse() {
		return b
	}
	if a.S == b.S {
		return a
	}
	return app(a.Sort, "ite", c, a, b)
}

func cmp(op string, a, b Term) Term {
	if av, ok := litVal(a); ok {
		if bv, ok := litVal(b); ok {
			c := av.Cmp(bv)
			switch op {
			case "<":
				return BoolLit(c < 0)
			case "<=":
				return BoolLit(c <= 0)
			case ">":
				return BoolLit(c > 0)
			case ">=":
				return BoolLit(c >= 0)
			}
		}
	}
	return app(SBool, op, a, b)
}

func Lt(a, b Term) Term { return cmp("<", a, b) }
func Le(a, b Term) Term { return cmp("<=", a, b) }
func Gt(a, b Term) Term { return cmp(">", a, b) }
func Ge(a, b Term) Term { return cmp(">=", a, b) }

func Add(a, b Term) Term {
	if av, ok := litVal(a); ok {
		if bv, ok := litVal(b); ok {
			return BigLit(new(big.Int).Add(av, bv))
		}
		if av.Sign() == 0 {
			return b
		}
	}
	if bv, ok := litVal(b); ok && bv.Sign() == 0 {
		return a
	}
	return app(SInt, "+", a, b)
}

func Sub(a, b Term) Term {
	if av, ok := litVal(a); ok {
		if bv, ok := litVal(b); ok {
			return BigLit(new(big.Int).Sub(av, bv))
		}
	}
	if bv, ok := litVal(b); ok && bv.Sign() == 0 {
		return a
	}
	return app(SInt, "-", a, b)
}

func Mul(a, b Term) Term {
	if av, ok := litVal(a); ok {
		if bv, ok := litVal(b); ok {
			return BigLit(new(big.Int).Mul(av, bv))
		}
	}
	return app(SInt, "*", a, b)
}

func Select(arr, idx Term) Term {
	return app(arr.Sort.elem(), "select", arr, idx)
}

func Store(arr, idx, v Term) Term {
	if v.Sort != arr.Sort.elem() {
		panic(fmt.Sprintf("Store: sort mismatch arr %s val %s:%s", arr.Sort, v.S, v.Sort))
	}
	return app(arr.Sort, "store", arr, idx, v)
}

func Forall(vars []Term, body Term) Term {
	if body.IsTrue() {
		return True
	}
	var b strings.Builder
	b.WriteString("(forall (")
	for _, v := range vars {
		fmt.Fprintf(&b, "(%s %s)", v.S, v.Sort)
	}
	b.WriteString(") ")
	b.WriteString(body.S)
	b.WriteString(")")
	return Term{b.String(), SBool}
}

func Exists(vars []Term, body Term) Term {
	if body.IsFalse() {
		return False
	}
	var b strings.Builder
	b.WriteString("(exists (")
	for _, v := range vars {
		fmt.Fprintf(&b, "(%s %s)", v.S, v.Sort)
	}
	b.WriteString(") ")
	b.WriteString(body.S)
	b.WriteString(")")
	return Term{b.String(), SBool}
}

var pow2 = map[int]*big.Int{}

func p2(n int) *big.Int {
	if v, ok := pow2[n]; ok {
		return v
	}
	v := new(big.Int).Lsh(big.NewInt(1), uint(n))
	pow2[n] = v
	return v
}

// smtName makes a string safe for use as an SMT-LIB simple symbol.
func smtName(s string) string {
	var b strings.Builder
	for _, c := range s {
		switch {
		case c >= 'a' && c <= 'z', c >= 'A' && c <= 'Z', c >= '0' && c <= '9', c == '_', c == '.':
			b.WriteRune(c)
		case c == '*':
			b.WriteString("P")
		case c == '[' || c == ']':
			b.WriteString("_")
		default:
			b.WriteString("_")
		}
	}
	return b.String()
}

type bigInt = big.Int

var bigOne = big.NewInt(1)
