package vc

import (
	"sort"
	"fmt"
	"go/ast"
	"go/constant"
	"go/token"
	"go/types"
	"strconv"
	"strings"

	"golang.org/x/tools/go/ssa"
)

type astIdent = ast.Ident

// specVal is a typed spec-level value. Addr != nil means "the value stored at Addr"
// (loaded on demand).
type specVal struct {
	V    Val
	T    types.Type
	Addr *PtrV
}

type specEnv struct {
	x     *exec
	pkg   *types.Package
	vars  map[string]specVal
	st    *State // state whose heap is read
	cur   *State // state receiving type assumptions
	old   *State
	frame *Frame // body-level names (loop invariants, asserts)
	depth int
	nq    *int
	what  string
	atCall *ssa.Function // the clause is a callee's contract assumed at a call site (its go statements did not run here)
	guard *Term // ghost assignment executed only when this holds (select arm)
	lenient bool // undefined locals evaluate to arbitrary values (ensures at early returns)
}

type specErr struct{ msg string }

func (e specErr) Error() string { return "spec error: " + e.msg }

func (se *specEnv) fail(format string, args ...interface{}) {
	panic(specErr{se.what + ": " + fmt.Sprintf(format, args...)})
}

func (se *specEnv) sub() *specEnv {
	n := *se
	return &n
}

// withState runs f reading heap from st, then merges type assumptions into cur.
func (se *specEnv) inState(st *State) *specEnv {
	n := se.sub()
	n.st = st
	return n
}

func (se *specEnv) load(p *PtrV) Val {
	if se.st == se.cur {
		return se.x.load(se.cur, p)
	}
	// read from another state's heap (old): use a scratch state sharing that heap
	tmp := &State{heap: se.st.heap, epoch: se.st.epoch, cells: se.st.cells, W: se.st.W, pcSet: map[string]bool{}}
	v := se.x.load(tmp, p)
	for _, a := range tmp.pc {
		se.cur.assume(a)
	}
	return v
}

func (se *specEnv) rval(sv specVal) Val {
	if sv.Addr != nil {
		return se.load(sv.Addr)
	}
	return sv.V
}

func (se *specEnv) evalBool(e ast.Expr) Term {
	sv := se.eval(e)
	t, ok := se.rval(sv).(Term)
	if !ok || t.Sort != SBool {
		se.fail("expression %s is not boolean", exprString(e))
	}
	return t
}

func (se *specEnv) evalInt(e ast.Expr) Term {
	sv := se.eval(e)
	t, ok := se.rval(sv).(Term)
	if !ok || t.Sort != SInt {
		se.fail("expression %s is not an integer", exprString(e))
	}
	return t
}

func exprString(e ast.Expr) string {
	return types.ExprString(e)
}

var untypedInt = types.Typ[types.UntypedInt]

func (se *specEnv) eval(e ast.Expr) specVal {
	switch n := e.(type) {
	case *ast.ParenExpr:
		return se.eval(n.X)
	case *ast.BasicLit:
		switch n.Kind {
		case token.INT:
			v, ok := new(bigInt).SetString(n.Value, 0)
			if !ok {
				se.fail("bad int literal %s", n.Value)
			}
			return specVal{V: BigLit(v), T: untypedInt}
		case token.STRING:
			s, _ := strconv.Unquote(n.Value)
			return specVal{V: se.x.strLit(se.cur, s), T: types.Typ[types.String]}
		case token.CHAR:
			s, _ := strconv.Unquote(n.Value)
			return specVal{V: IntLit(int64([]rune(s)[0])), T: untypedInt}
		}
		se.fail("literal %s", n.Value)
	case *ast.Ident:
		return se.ident(n)
	case *ast.UnaryExpr:
		v := se.eval(n.X)
		switch n.Op {
		case token.NOT:
			return specVal{V: Not(se.rval(v).(Term)), T: types.Typ[types.Bool]}
		case token.SUB:
			return specVal{V: Sub(Zero, se.rval(v).(Term)), T: v.T}
		case token.AND:
			if v.Addr != nil {
				return specVal{V: v.Addr, T: types.NewPointer(v.T)}
			}
		}
		se.fail("unary %s", n.Op)
	case *ast.StarExpr:
		v := se.eval(n.X)
		p, ok := se.rval(v).(*PtrV)
		if !ok {
			se.fail("deref of non-pointer %s", exprString(n.X))
		}
		return specVal{Addr: p, T: deref(v.T)}
	case *ast.BinaryExpr:
		return se.binary(n)
	case *ast.SelectorExpr:
		return se.selector(n)
	case *ast.IndexExpr:
		return se.indexExpr(n)
	case *ast.CallExpr:
		return se.call(n)
	}
	se.fail("unsupported expression %s (%T)", exprString(e), e)
	return specVal{}
}

func (se *specEnv) ident(n *ast.Ident) specVal {
	switch n.Name {
	case "true":
		return specVal{V: True, T: types.Typ[types.Bool]}
	case "false":
		return specVal{V: False, T: types.Typ[types.Bool]}
	case "nil":
		return specVal{V: Zero, T: types.Typ[types.UntypedNil]}
	}
	if v, ok := se.vars[n.Name]; ok {
		return v
	}
	if se.frame != nil {
		if v, ok := se.frame.names[n.Name]; ok {
			t := se.x.nameType(se.frame, n.Name)
			if se.frame.nameAddr[n.Name] {
				if p, ok := v.(*PtrV); ok {
					return specVal{Addr: p, T: t}
				}
			}
			return specVal{V: v, T: t}
		}
	}
	if gv, ok := se.x.e.Specs.GhostVars[n.Name]; ok {
		sort, t := ghostSort(gv.Type)
		return specVal{V: se.x.getHeapIn(se.st, "GV."+gv.Name, sort), T: t}
	}
	// package scope
	if se.pkg != nil {
		if obj := se.pkg.Scope().Lookup(n.Name); obj != nil {
			return se.object(obj)
		}
	}
	if obj := types.Universe.Lookup(n.Name); obj != nil {
		if tn, ok := obj.(*types.TypeName); ok {
			return specVal{T: tn.Type(), V: nil}
		}
	}
	if se.frame != nil && se.lenient {
		// a local variable of the function that no instruction on this path has defined (an
		// ensures clause evaluated at an early return): any value; the clause can only be
		// proved if it does not depend on it there
		if t := se.x.nameType(se.frame, n.Name); t != nil {
			v := se.x.freshVal(se.cur, "undef."+n.Name, t)
			se.frame.names[n.Name] = v
			return specVal{V: v, T: t}
		}
	}
	se.fail("unknown identifier %s", n.Name)
	return specVal{}
}

func (se *specEnv) object(obj types.Object) specVal {
	switch o := obj.(type) {
	case *types.Const:
		switch o.Val().Kind() {
		case constant.Bool:
			return specVal{V: BoolLit(constant.BoolVal(o.Val())), T: o.Type()}
		case constant.Int:
			b, _ := new(bigInt).SetString(o.Val().ExactString(), 10)
			return specVal{V: BigLit(b), T: o.Type()}
		case constant.String:
			return specVal{V: se.x.strLit(se.cur, constant.StringVal(o.Val())), T: o.Type()}
		}
	case *types.Var:
		// package-level variable
		if sp := se.x.e.SSAPkg[o.Pkg().Path()]; sp != nil {
			if g, ok := sp.Members[o.Name()].(*ssa.Global); ok {
				return specVal{Addr: &PtrV{Glob: g, Root: deref(g.Type())}, T: o.Type()}
			}
		}
	case *types.TypeName:
		return specVal{T: o.Type()}
	}
	se.fail("cannot use %s in a spec", obj.Name())
	return specVal{}
}

func isUntyped(t types.Type) bool {
	b, ok := t.(*types.Basic)
	return ok && b.Info()&types.IsUntyped != 0
}

func (se *specEnv) binary(n *ast.BinaryExpr) specVal {
	boolT := types.Typ[types.Bool]
	switch n.Op {
	case token.LAND:
		return specVal{V: And(se.evalBool(n.X), se.evalBool(n.Y)), T: boolT}
	case token.LOR:
		return specVal{V: Or(se.evalBool(n.X), se.evalBool(n.Y)), T: boolT}
	}
	a, b := se.eval(n.X), se.eval(n.Y)
	av, bv := se.rval(a), se.rval(b)
	switch n.Op {
	case token.EQL, token.NEQ:
		eq := se.equal(a, av, b, bv)
		if n.Op == token.NEQ {
			eq = Not(eq)
		}
		return specVal{V: eq, T: boolT}
	}
	at, ok1 := av.(Term)
	bt, ok2 := bv.(Term)
	if !ok1 || !ok2 {
		se.fail("operator %s on composite values in %s", n.Op, exprString(n))
	}
	rt := a.T
	if rt == nil || isUntyped(rt) {
		rt = b.T
	}
	switch n.Op {
	case token.LSS:
		return specVal{V: Lt(at, bt), T: boolT}
	case token.LEQ:
		return specVal{V: Le(at, bt), T: boolT}
	case token.GTR:
		return specVal{V: Gt(at, bt), T: boolT}
	case token.GEQ:
		return specVal{V: Ge(at, bt), T: boolT}
	case token.ADD:
		return specVal{V: Add(at, bt), T: rt}
	case token.SUB:
		return specVal{V: Sub(at, bt), T: rt}
	case token.MUL:
		return specVal{V: Mul(at, bt), T: rt}
	case token.QUO:
		return specVal{V: app(SInt, "div", at, bt), T: rt}
	case token.REM:
		return specVal{V: app(SInt, "mod", at, bt), T: rt}
	}
	se.fail("operator %s", n.Op)
	return specVal{}
}

func (se *specEnv) equal(a specVal, av Val, b specVal, bv Val) Term {
	// nil comparisons
	isNil := func(s specVal) bool {
		bt, ok := s.T.(*types.Basic)
		return ok && bt.Kind() == types.UntypedNil
	}
	if isNil(b) {
		return se.isNilVal(av)
	}
	if isNil(a) {
		return se.isNilVal(bv)
	}
	t := a.T
	if t == nil || isUntyped(t) {
		t = b.T
	}
	return se.x.valEq(se.cur, av, bv, t)
}

func (se *specEnv) isNilVal(v Val) Term {
	switch c := v.(type) {
	case Term:
		return Eq(c, Zero)
	case *PtrV:
		if c.Cell != nil || c.Glob != nil {
			return False
		}
		return Eq(c.Obj, Zero)
	case *IfaceV:
		return Eq(c.Tag, Zero)
	case *SliceV:
		return Eq(c.Arr, Zero)
	case *FuncV:
		return Eq(c.T, Zero)
	case *ClosureV:
		return False
	}
	se.fail("nil comparison of %T", v)
	return False
}

// typeNameOf returns the name of the (possibly pointer-to) named type.
func typeNameOf(t types.Type) string {
	t = deref(t)
	if n, ok := t.(*types.Named); ok {
		return n.Obj().Name()
	}
	return ""
}

func (se *specEnv) selector(n *ast.SelectorExpr) specVal {
	// package-qualified identifier?
	if id, ok := n.X.(*ast.Ident); ok {
		if _, isVar := se.vars[id.Name]; !isVar && (se.frame == nil || se.frame.names[id.Name] == nil) {
			if se.pkg != nil {
				if _, isLocal := se.pkg.Scope().Lookup(id.Name).(*types.Var); !isLocal {
					for _, imp := range se.x.e.allPackages() {
						if imp.Name() == id.Name {
							if obj := imp.Scope().Lookup(n.Sel.Name); obj != nil {
								return se.object(obj)
							}
						}
					}
				}
			}
		}
	}
	base := se.eval(n.X)
	return se.fieldByName(base, n.Sel.Name)
}

func (se *specEnv) fieldByName(base specVal, name string) specVal {
	if base.T == nil {
		se.fail("selector .%s on untyped value", name)
	}
	obj, index, _ := types.LookupFieldOrMethod(base.T, true, se.pkgOf(base.T), name)
	if v, ok := obj.(*types.Var); ok && v.IsField() {
		cur := base
		for _, i := range index {
			cur = se.fieldAt(cur, i)
		}
		return cur
	}
	// ghost field: look through embedded structs
	if gv, ok := se.ghostField(base, name, 0); ok {
		return gv
	}
	se.fail("no field %s in %s", name, base.T)
	return specVal{}
}

func (se *specEnv) pkgOf(t types.Type) *types.Package {
	if n, ok := deref(t).(*types.Named); ok && n.Obj().Pkg() != nil {
		return n.Obj().Pkg()
	}
	return se.pkg
}

func (se *specEnv) ghostField(base specVal, name string, depth int) (specVal, bool) {
	if depth > 4 {
		return specVal{}, false
	}
	tn := typeNameOf(base.T)
	if gf, ok := se.x.e.Specs.GhostFields[tn+"."+name]; ok {
		// object reference
		var obj Term
		switch v := se.rval(base).(type) {
		case *PtrV:
			obj = se.x.ptrTerm(v)
		case Term:
			obj = v
		default:
			if base.Addr != nil && len(base.Addr.Path) == 0 && base.Addr.Cell == nil {
				obj = base.Addr.Obj
			} else {
				se.fail("ghost field %s on a non-object", name)
			}
		}
		if !isPointer(base.T) && base.Addr != nil {
			obj = base.Addr.Obj
		}
		sort, t := ghostSort(gf.Type)
		arr := se.x.getHeapIn(se.st, "G."+gf.Owner+"."+gf.Name, ArrSort(SInt, sort))
		return specVal{V: Select(arr, obj), T: t}, true
	}
	st, ok := deref(base.T).Underlying().(*types.Struct)
	if !ok {
		return specVal{}, false
	}
	for i := 0; i < st.NumFields(); i++ {
		if st.Field(i).Embedded() {
			if r, ok := se.ghostField(se.fieldAt(base, i), name, depth+1); ok {
				return r, true
			}
		}
	}
	return specVal{}, false
}

// ghostType wraps ghost array types so that index expressions work on them.
type ghostArrayT struct {
	types.Type
	elem Sort
}

func ghostSort(ty string) (Sort, types.Type) {
	ty = strings.TrimSpace(ty)
	switch ty {
	case "bool":
		return SBool, types.Typ[types.Bool]
	case "int":
		return SInt, untypedInt
	case "uint64":
		return SInt, types.Typ[types.Uint64]
	}
	if strings.HasPrefix(ty, "map[") {
		i := strings.Index(ty, "]")
		es, _ := ghostSort(ty[i+1:])
		return ArrSort(SInt, es), &ghostArrayT{Type: untypedInt, elem: es}
	}
	panic(specErr{"unknown ghost type " + ty})
}

func (se *specEnv) fieldAt(base specVal, i int) specVal {
	st, ok := deref(base.T).Underlying().(*types.Struct)
	if !ok {
		se.fail("field access on non-struct %s", base.T)
	}
	ft := st.Field(i).Type()
	if isPointer(base.T) {
		p, ok := se.rval(base).(*PtrV)
		if !ok {
			se.fail("field access through %T", se.rval(base))
		}
		np := *p
		np.Path = append(append([]int(nil), p.Path...), i)
		return specVal{Addr: &np, T: ft}
	}
	if base.Addr != nil {
		np := *base.Addr
		np.Path = append(append([]int(nil), base.Addr.Path...), i)
		return specVal{Addr: &np, T: ft}
	}
	sv, ok := base.V.(*StructV)
	if !ok {
		se.fail("field access on %T", base.V)
	}
	return specVal{V: sv.F[i], T: ft}
}

func (se *specEnv) indexExpr(n *ast.IndexExpr) specVal {
	base := se.eval(n.X)
	idx := se.evalInt(n.Index)
	if ga, ok := base.T.(*ghostArrayT); ok {
		arr := se.rval(base).(Term)
		_, et := ghostSortOfElem(ga.elem)
		return specVal{V: Select(arr, idx), T: et}
	}
	switch u := base.T.Underlying().(type) {
	case *types.Map:
		m := se.rval(base).(Term)
		v, _ := se.mapLookup(u, m, idx)
		return specVal{V: v, T: u.Elem()}
	case *types.Slice:
		sv := se.rval(base).(*SliceV)
		return specVal{Addr: &PtrV{Obj: sv.Arr, Elem: true, Idx: Add(sv.Off, idx), Root: u.Elem()}, T: u.Elem()}
	}
	se.fail("index on %s", base.T)
	return specVal{}
}

func ghostSortOfElem(s Sort) (Sort, types.Type) {
	if s == SBool {
		return s, types.Typ[types.Bool]
	}
	if s == SInt {
		return s, untypedInt
	}
	return s, &ghostArrayT{Type: untypedInt, elem: s.elem()}
}

func (se *specEnv) mapLookup(mt *types.Map, m, k Term) (Val, Term) {
	if se.st == se.cur {
		return se.x.mapLookup(se.cur, mt, m, k)
	}
	tmp := &State{heap: se.st.heap, epoch: se.st.epoch, cells: se.st.cells, W: se.st.W, pcSet: map[string]bool{}}
	v, h := se.x.mapLookup(tmp, mt, m, k)
	for _, a := range tmp.pc {
		se.cur.assume(a)
	}
	return v, h
}

func (se *specEnv) call(n *ast.CallExpr) specVal {
	boolT := types.Typ[types.Bool]
	if id, ok := n.Fun.(*ast.Ident); ok {
		switch id.Name {
		case "old":
			if se.old == nil {
				se.fail("old() not available here")
			}
			return se.inState(se.old).evalRV(n.Args[0])
		case "implies":
			return specVal{V: Implies(se.evalBool(n.Args[0]), se.evalBool(n.Args[1])), T: boolT}
		case "ite":
			c := se.evalBool(n.Args[0])
			a, b := se.eval(n.Args[1]), se.eval(n.Args[2])
			at, bt := se.rval(a).(Term), se.rval(b).(Term)
			return specVal{V: Ite(c, at, bt), T: a.T}
		case "forall", "exists", "forallr", "existsr":
			return se.quant(n, strings.HasPrefix(id.Name, "forall"), strings.HasSuffix(id.Name, "r"))
		case "len":
			a := se.eval(n.Args[0])
			switch v := se.rval(a).(type) {
			case *SliceV:
				return specVal{V: v.Len, T: untypedInt}
			case Term:
				if _, ok := a.T.Underlying().(*types.Map); ok {
					tmp := se.scratch()
					r := se.x.mapLen(tmp, a.T, v)
					se.merge(tmp)
					return specVal{V: r, T: untypedInt}
				}
				se.x.ctx.declareFun("strlen", []Sort{SInt}, SInt)
				return specVal{V: app(SInt, "strlen", v), T: untypedInt}
			}
			se.fail("len of %s", exprString(n.Args[0]))
		case "has":
			a := se.eval(n.Args[0])
			mt, ok := a.T.Underlying().(*types.Map)
			if !ok {
				se.fail("has() on non-map")
			}
			m := se.rval(a).(Term)
			k := se.evalInt(n.Args[1])
			_, h := se.mapLookup(mt, m, k)
			return specVal{V: h, T: boolT}
		case "keys":
			a := se.eval(n.Args[0])
			mt, ok := a.T.Underlying().(*types.Map)
			if !ok {
				se.fail("keys() on non-map")
			}
			tmp := se.scratch()
			h := se.x.mapHas(tmp, mt, se.rval(a).(Term))
			se.merge(tmp)
			return specVal{V: h, T: &ghostArrayT{Type: untypedInt, elem: SBool}}
		case "col":
			a := se.eval(n.Args[0])
			mt, ok := a.T.Underlying().(*types.Map)
			if !ok {
				se.fail("col() on non-map")
			}
			path := exprString(n.Args[1])
			for _, l := range leavesOf(mt.Elem()) {
				if l.Path == path {
					arr := se.x.getHeapIn(se.st, mapKey(mt, "v."+l.Path), ArrSort(SInt, ArrSort(SInt, l.Sort)))
					return specVal{V: Select(arr, se.rval(a).(Term)), T: &ghostArrayT{Type: untypedInt, elem: l.Sort}}
				}
			}
			se.fail("col(): no leaf %s in %s", path, mt.Elem())
		case "visitedset":
			it := se.x.currentIter(se.st, se.frame)
			if it == nil {
				se.fail("visitedset() outside a map range loop")
			}
			return specVal{V: it.Visited, T: &ghostArrayT{Type: untypedInt, elem: SBool}}
		case "cntv":
			se.x.useSetLib()
			v, s := se.rval(se.eval(n.Args[0])).(Term), se.rval(se.eval(n.Args[1])).(Term)
			return specVal{V: app(SInt, "cntv", v, s), T: untypedInt}
		case "card":
			se.x.useSetLib()
			s := se.rval(se.eval(n.Args[0])).(Term)
			return specVal{V: app(SInt, "card", s), T: untypedInt}
		case "lam":
			// lam(k, e): the array A with A[k] == e for every k (a fresh array with its definition)
			id, ok := n.Args[0].(*ast.Ident)
			if !ok {
				se.fail("lam: first argument must be an identifier")
			}
			*se.nq++
			qv := Term{fmt.Sprintf("%s!q%d", id.Name, *se.nq), SInt}
			sub := se.sub()
			sub.vars = map[string]specVal{}
			for k, v := range se.vars {
				sub.vars[k] = v
			}
			sub.vars[id.Name] = specVal{V: qv, T: types.Typ[types.Uint64]}
			tmpCur := &State{heap: se.cur.heap, epoch: se.cur.epoch, cells: se.cur.cells, W: se.cur.W, pcSet: map[string]bool{}}
			nn := sub.sub()
			if se.st == se.cur {
				nn.st = tmpCur
			}
			nn.cur = tmpCur
			body, okT := nn.rval(nn.eval(n.Args[1])).(Term)
			if !okT {
				se.fail("lam: body must be a scalar")
			}
			ckey := strings.ReplaceAll(body.S, qv.S, "?") + "|" + string(body.Sort)
			if cached, ok := se.x.ctx.lamCache[ckey]; ok {
				// same definition: same array (its defining axiom is re-assumed for this state)
				se.cur.assume(Forall([]Term{qv}, Eq(Select(cached, qv), body)))
				return specVal{V: cached, T: &ghostArrayT{Type: untypedInt, elem: body.Sort}}
			}
			arr := se.x.ctx.fresh("lam", ArrSort(SInt, body.Sort))
			se.x.ctx.lamCache[ckey] = arr
			var local []Term
			for _, a := range tmpCur.pc {
				if strings.Contains(a.S, qv.S) {
					local = append(local, a)
				} else {
					se.cur.assume(a)
				}
			}
			if len(local) > 0 {
				se.cur.assume(Forall([]Term{qv}, And(local...)))
			}
			def := Forall([]Term{qv}, Eq(Select(arr, qv), body))
			se.cur.assume(def)
			return specVal{V: arr, T: &ghostArrayT{Type: untypedInt, elem: body.Sort}}
		case "cntge":
			se.x.useCountLib()
			var args []Term
			for _, a := range n.Args {
				args = append(args, se.rval(se.eval(a)).(Term))
			}
			if len(args) != 4 {
				se.fail("cntge(V, M, S, v)")
			}
			return specVal{V: app(SInt, "cntge", args...), T: untypedInt}
		case "scge":
			// scge(slice, n, v): number of the first n elements of the slice that are >= v
			se.x.useCountLib()
			a := se.eval(n.Args[0])
			sv, ok := se.rval(a).(*SliceV)
			if !ok {
				se.fail("scge needs a slice")
			}
			et := a.T.Underlying().(*types.Slice).Elem()
			h := se.x.getHeapIn(se.st, elemKey(et, ""), ArrSort(SInt, ArrSort(SInt, SInt)))
			cnt := se.evalInt(n.Args[1])
			v := se.evalInt(n.Args[2])
			return specVal{V: app(SInt, "scge", Select(h, sv.Arr), sv.Off, Add(sv.Off, cnt), v), T: untypedInt}
		case "as":
			// as(i, T): the value of concrete type T held by interface value i
			a := se.eval(n.Args[0])
			iv, ok := se.rval(a).(*IfaceV)
			if !ok {
				se.fail("as() needs an interface value")
			}
			t := se.resolveType(exprString(n.Args[1]))
			if t == nil {
				se.fail("as(): unknown type %s", exprString(n.Args[1]))
			}
			tmp := se.scratch()
			v := se.x.unbox(tmp, iv.Pay, t)
			se.merge(tmp)
			return specVal{V: v, T: t}
		case "subset":
			a, b := se.rval(se.eval(n.Args[0])).(Term), se.rval(se.eval(n.Args[1])).(Term)
			*se.nq++
			q := Term{fmt.Sprintf("k!q%d", *se.nq), SInt}
			return specVal{V: Forall([]Term{q}, Implies(Select(a, q), Select(b, q))), T: boolT}
		case "visited":
			k := se.evalInt(n.Args[0])
			it := se.x.currentIter(se.st, se.frame)
			if it == nil {
				se.fail("visited() outside a map range loop")
			}
			return specVal{V: Select(it.Visited, k), T: boolT}
		case "ref":
			// the object reference behind a pointer or an interface value
			a := se.eval(n.Args[0])
			switch v := se.rval(a).(type) {
			case *IfaceV:
				return specVal{V: v.Pay, T: untypedInt}
			case *PtrV:
				return specVal{V: se.x.ptrTerm(v), T: untypedInt}
			case Term:
				return specVal{V: v, T: untypedInt}
			}
			se.fail("ref() of %s", exprString(n.Args[0]))
		case "word":
			// word(b, pos): the little-endian 64-bit word stored in b[pos:pos+8], as an
			// uninterpreted function of its eight bytes (T-std: encoding/binary)
			a := se.eval(n.Args[0])
			sv, ok := se.rval(a).(*SliceV)
			if !ok {
				se.fail("word() needs a byte slice")
			}
			pos := se.evalInt(n.Args[1])
			return specVal{V: se.x.wordAt(se.st, sv, pos, 8), T: types.Typ[types.Uint64]}
		case "wordat":
			// wordat(b, p): the 64-bit word at ABSOLUTE position p of b's backing array
			a := se.eval(n.Args[0])
			sv, ok := se.rval(a).(*SliceV)
			if !ok {
				se.fail("wordat() needs a byte slice")
			}
			pos := se.evalInt(n.Args[1])
			return specVal{V: se.x.wordAt(se.st, &SliceV{Arr: sv.Arr, Off: Zero, Len: sv.Len, Cap: sv.Cap}, pos, 8), T: types.Typ[types.Uint64]}
		case "word32":
			a := se.eval(n.Args[0])
			sv, ok := se.rval(a).(*SliceV)
			if !ok {
				se.fail("word32() needs a byte slice")
			}
			pos := se.evalInt(n.Args[1])
			return specVal{V: se.x.wordAt(se.st, sv, pos, 4), T: types.Typ[types.Uint32]}
		case "gword":
			// gword(a, p): 64-bit word stored at absolute positions p..p+7 of a ghost byte array
			arr, ok := se.rval(se.eval(n.Args[0])).(Term)
			if !ok {
				se.fail("gword() needs a ghost array")
			}
			pos := se.evalInt(n.Args[1])
			return specVal{V: se.x.wordOf(arr, pos, 8), T: types.Typ[types.Uint64]}
		case "gword32":
			arr, ok := se.rval(se.eval(n.Args[0])).(Term)
			if !ok {
				se.fail("gword32() needs a ghost array")
			}
			return specVal{V: se.x.wordOf(arr, se.evalInt(n.Args[1]), 4), T: types.Typ[types.Uint32]}
		case "word32at":
			a := se.eval(n.Args[0])
			sv, ok := se.rval(a).(*SliceV)
			if !ok {
				se.fail("word32at() needs a byte slice")
			}
			pos := se.evalInt(n.Args[1])
			return specVal{V: se.x.wordAt(se.st, &SliceV{Arr: sv.Arr, Off: Zero, Len: sv.Len, Cap: sv.Cap}, pos, 4), T: types.Typ[types.Uint32]}
		case "strbyte":
			se.x.ctx.declareFun("strbyte", []Sort{SInt, SInt}, SInt)
			sT := se.rval(se.eval(n.Args[0])).(Term)
			return specVal{V: app(SInt, "strbyte", sT, se.evalInt(n.Args[1])), T: types.Typ[types.Uint8]}
		case "base":
			// absolute index of the slice's first element in its backing array
			sv, ok := se.rval(se.eval(n.Args[0])).(*SliceV)
			if !ok {
				se.fail("base() needs a slice")
			}
			return specVal{V: sv.Off, T: untypedInt}
		case "raw":
			// raw(s, p): element at absolute index p of the slice's backing array
			a := se.eval(n.Args[0])
			sv, ok := se.rval(a).(*SliceV)
			if !ok {
				se.fail("raw() needs a slice")
			}
			et := a.T.Underlying().(*types.Slice).Elem()
			p := se.evalInt(n.Args[1])
			return specVal{Addr: &PtrV{Obj: sv.Arr, Elem: true, Idx: p, Root: et}, T: et}
		case "setof":
			// finite set of references/integers: setof(a, b, ...)
			set := constArray(ArrSort(SInt, SBool), False)
			for _, a := range n.Args {
				var t Term
				switch v := se.rval(se.evalRV(a)).(type) {
				case Term:
					t = v
				case *PtrV:
					t = se.x.ptrTerm(v)
				default:
					se.fail("setof(): element is not a scalar or reference")
				}
				set = Store(set, t, True)
			}
			return specVal{V: set, T: &ghostArrayT{Type: untypedInt, elem: SBool}}
		case "substr", "strcat":
			// the engine's uninterpreted string functions, for contracts that describe parsing pipelines:
			// substr(s, lo, hi) = s[lo:hi], strcat(a, b) = a + b
			var ts []Term
			for _, a := range n.Args {
				t, ok := se.rval(se.evalRV(a)).(Term)
				if !ok {
					se.fail("%s: argument is not a string/integer", id.Name)
				}
				ts = append(ts, t)
			}
			se.x.ctx.declareFun("strlen", []Sort{SInt}, SInt)
			if id.Name == "substr" {
				if len(ts) != 3 {
					se.fail("substr(s, lo, hi)")
				}
				se.x.ctx.declareFun("substr", []Sort{SInt, SInt, SInt}, SInt)
				return specVal{V: app(SInt, "substr", ts...), T: types.Typ[types.String]}
			}
			if len(ts) != 2 {
				se.fail("strcat(a, b)")
			}
			se.x.ctx.declareFun("strcat", []Sort{SInt, SInt}, SInt)
			return specVal{V: app(SInt, "strcat", ts...), T: types.Typ[types.String]}
		case "goarg":
			// goarg(k, i): the i-th argument the k-th go statement (in execution order on this path) of
			// the verified function was started with
			k, ok1 := n.Args[0].(*ast.BasicLit)
			i, ok2 := n.Args[1].(*ast.BasicLit)
			if !ok1 || !ok2 {
				se.fail("goarg(k, i) needs literal indexes")
			}
			ki, _ := strconv.Atoi(k.Value)
			ii, _ := strconv.Atoi(i.Value)
			if se.atCall == nil && ki >= 1 && ki <= len(se.st.goArgs) && ii >= 1 && ii <= len(se.st.goArgs[ki-1]) {
				return se.st.goArgs[ki-1][ii-1]
			}
			ownFn := se.x.topFn
			if se.atCall != nil {
				ownFn = se.atCall // at a call site the callee's goroutine arguments are not visible: arbitrary
			}
			// this path did not execute that go statement: an arbitrary value of the parameter's type
			// (the clause can only be proved here if it does not depend on it)
			var gos []*ssa.Go
			for _, b := range ownFn.Blocks {
				for _, in := range b.Instrs {
					if g, ok := in.(*ssa.Go); ok {
						gos = append(gos, g)
					}
				}
			}
			sort.Slice(gos, func(a, b int) bool { return gos[a].Pos() < gos[b].Pos() })
			if ki < 1 || ki > len(gos) || ii < 1 || ii > gos[ki-1].Call.Signature().Params().Len() {
				se.fail("goarg(%d, %d): the function has %d go statement(s)", ki, ii, len(gos))
			}
			pt := gos[ki-1].Call.Signature().Params().At(ii - 1).Type()
			return specVal{V: se.x.freshVal(se.cur, "nogo", pt), T: pt}
		case "allocated":
			// the reference denotes an object that exists in the state the clause is evaluated in
			var t Term
			switch v := se.rval(se.evalRV(n.Args[0])).(type) {
			case Term:
				t = v
			case *PtrV:
				t = se.x.ptrTerm(v)
			default:
				se.fail("allocated(): not a reference")
			}
			return specVal{V: Le(t, se.st.W), T: boolT}
		case "bytesof":
			// the whole content of the byte array behind a slice (footprints of opaque predicates)
			sv, ok := se.rval(se.eval(n.Args[0])).(*SliceV)
			if !ok {
				se.fail("bytesof() needs a slice")
			}
			h := se.x.getHeapIn(se.st, elemKey(types.Typ[types.Uint8], ""), ArrSort(SInt, ArrSort(SInt, SInt)))
			return specVal{V: Select(h, sv.Arr), T: &ghostArrayT{Type: untypedInt, elem: SInt}}
		case "arrof":
			sv, ok := se.rval(se.eval(n.Args[0])).(*SliceV)
			if !ok {
				se.fail("arrof() needs a slice")
			}
			return specVal{V: sv.Arr, T: untypedInt}
		case "sameslice":
			a, b := se.rval(se.eval(n.Args[0])).(*SliceV), se.rval(se.eval(n.Args[1])).(*SliceV)
			return specVal{V: And(Eq(a.Arr, b.Arr), Eq(a.Off, b.Off), Eq(a.Len, b.Len)), T: boolT}
		case "isfresh":
			// the object/channel/map was allocated during this call (not reachable before it)
			a := se.eval(n.Args[0])
			var t Term
			switch v := se.rval(a).(type) {
			case *PtrV:
				t = se.x.ptrTerm(v)
			case Term:
				t = v
			default:
				se.fail("isfresh of %s", exprString(n.Args[0]))
			}
			w0 := Term{"W@0", SInt}
			if se.old != nil && se.old != se.x.entry {
				w0 = se.old.W
			}
			return specVal{V: Gt(t, w0), T: boolT}
		case "isexternal":
			// the dynamic type of an interface value is not a type of this module (e.g. an io error)
			a := se.eval(n.Args[0])
			iv, ok := se.rval(a).(*IfaceV)
			if !ok {
				se.fail("isexternal on non-interface")
			}
			cs := []Term{Neq(iv.Tag, Zero)}
			for id := 1; id < len(se.x.e.tagTypes); id++ {
				if nt, ok := deref(se.x.e.tagTypes[id]).(*types.Named); ok && nt.Obj().Pkg() != nil && strings.HasPrefix(nt.Obj().Pkg().Path(), ModPath) {
					cs = append(cs, Neq(iv.Tag, IntLit(int64(id))))
				}
			}
			return specVal{V: And(cs...), T: boolT}
		case "ptrnonnil":
			// an interface value that is non-nil and does not hold a typed nil pointer
			a := se.eval(n.Args[0])
			iv, ok := se.rval(a).(*IfaceV)
			if !ok {
				se.fail("ptrnonnil on non-interface")
			}
			return specVal{V: And(Neq(iv.Tag, Zero), Neq(iv.Pay, Zero)), T: boolT}
		case "istype":
			a := se.eval(n.Args[0])
			iv, ok := se.rval(a).(*IfaceV)
			if !ok {
				se.fail("istype on non-interface")
			}
			tt := se.resolveType(exprString(n.Args[1]))
			if tt == nil {
				se.fail("istype: unknown type %s", exprString(n.Args[1]))
			}
			return specVal{V: Eq(iv.Tag, IntLit(int64(se.x.e.tagOf(tt)))), T: boolT}
		case "uint64", "int", "uint32", "uint8", "int64", "uint16", "int32", "byte":
			a := se.eval(n.Args[0])
			return specVal{V: se.rval(a), T: types.Universe.Lookup(id.Name).Type()}
		}
		if pf, ok := se.x.e.Specs.Pures[id.Name]; ok {
			return se.callPure(pf, n.Args)
		}
		if gf, ok := se.x.e.Specs.GhostFuncs[id.Name]; ok {
			var args []Term
			var sorts []Sort
			for i, a := range n.Args {
				v := se.rval(se.eval(a))
				t, ok := v.(Term)
				if !ok {
					if p, isP := v.(*PtrV); isP {
						t = se.x.ptrTerm(p)
					} else {
						// composite argument: all its leaves
						sv := se.eval(a)
						var leaves []Term
						func() {
							defer func() {
								if r := recover(); r != nil {
									se.fail("ghost func %s: argument %d is composite and cannot be flattened", gf.Name, i)
								}
							}()
							leaves = flattenVal(v, sv.T)
						}()
						for _, l := range leaves {
							args = append(args, l)
							sorts = append(sorts, l.Sort)
						}
						continue
					}
				}
				args = append(args, t)
				sorts = append(sorts, t.Sort)
			}
			rs, rt := ghostSort(gf.RType)
			se.x.ctx.declareFun("gf."+gf.Name, sorts, rs)
			return specVal{V: app(rs, "gf."+gf.Name, args...), T: rt}
		}
		// conversion to a named type of the package: T(x)
		if se.pkg != nil {
			if tn, ok := se.pkg.Scope().Lookup(id.Name).(*types.TypeName); ok && len(n.Args) == 1 {
				a := se.eval(n.Args[0])
				return specVal{V: se.rval(a), T: tn.Type()}
			}
		}
		se.fail("unknown spec function %s", id.Name)
	}
	// method-style pure call: x.name(args) => pure "T.name"(x, args)
	if sel, ok := n.Fun.(*ast.SelectorExpr); ok {
		recv := se.eval(sel.X)
		tn := typeNameOf(recv.T)
		if pf, ok := se.x.e.Specs.Pures[tn+"."+sel.Sel.Name]; ok {
			return se.callPureVals(pf, append([]specVal{recv}, se.evalArgs(n.Args)...))
		}
		// look through embedded fields
		if st, ok := deref(recv.T).Underlying().(*types.Struct); ok {
			for i := 0; i < st.NumFields(); i++ {
				if st.Field(i).Embedded() {
					inner := se.fieldAt(recv, i)
					if pf, ok := se.x.e.Specs.Pures[typeNameOf(inner.T)+"."+sel.Sel.Name]; ok {
						return se.callPureVals(pf, append([]specVal{inner}, se.evalArgs(n.Args)...))
					}
				}
			}
		}
		se.fail("no pure definition for method %s.%s", tn, sel.Sel.Name)
	}
	se.fail("unsupported call %s", exprString(n))
	return specVal{}
}

func (se *specEnv) scratch() *State {
	return &State{heap: se.st.heap, epoch: se.st.epoch, cells: se.st.cells, W: se.st.W, pcSet: map[string]bool{}}
}

func (se *specEnv) merge(tmp *State) {
	for _, a := range tmp.pc {
		se.cur.assume(a)
	}
}

func (se *specEnv) evalRV(e ast.Expr) specVal {
	sv := se.eval(e)
	if sv.Addr != nil {
		return specVal{V: se.load(sv.Addr), T: sv.T}
	}
	return sv
}

func (se *specEnv) evalArgs(args []ast.Expr) []specVal {
	var out []specVal
	for _, a := range args {
		out = append(out, se.evalRVKeepAddr(a))
	}
	return out
}

// evalRVKeepAddr evaluates an argument; lvalues stay lvalues so that pure functions
// can be applied in either state.
func (se *specEnv) evalRVKeepAddr(e ast.Expr) specVal {
	return se.eval(e)
}

func (se *specEnv) callPure(pf *PureFn, args []ast.Expr) specVal {
	return se.callPureVals(pf, se.evalArgs(args))
}

func (se *specEnv) callPureVals(pf *PureFn, args []specVal) specVal {
	if len(args) != len(pf.Params) {
		se.fail("pure %s: %d args, want %d", pf.Name, len(args), len(pf.Params))
	}
	if se.depth > 20 {
		se.fail("pure %s: recursion too deep", pf.Name)
	}
	n := se.sub()
	n.depth++
	n.vars = map[string]specVal{}
	n.frame = nil
	if p := se.x.e.TPkg[pf.Pkg]; p != nil {
		n.pkg = p
	}
	for i, name := range pf.Params {
		a := args[i]
		// a quantified reference used where the pure function expects a pointer
		if t, isTerm := a.V.(Term); isTerm && a.Addr == nil && i < len(pf.PTypes) && strings.HasPrefix(pf.PTypes[i], "*") {
			if dt := n.resolveType(pf.PTypes[i]); dt != nil {
				a = specVal{V: &PtrV{Obj: t, Root: deref(dt)}, T: dt}
			}
		}
		n.vars[name] = a
	}
	if pf.Opaque {
		return se.callOpaque(pf, n)
	}
	return n.evalRV(pf.Body.Expr)
}

// leafTerms flattens a spec value into SMT terms (pointers as references, slices as their
// header, structs leaf by leaf).
func (se *specEnv) leafTerms(sv specVal, what string) []Term {
	v := se.rval(sv)
	switch c := v.(type) {
	case Term:
		return []Term{c}
	case *PtrV:
		return []Term{se.x.ptrTerm(c)}
	}
	var out []Term
	func() {
		defer func() {
			if r := recover(); r != nil {
				se.fail("%s: value cannot be flattened", what)
			}
		}()
		out = flattenVal(v, sv.T)
	}()
	return out
}

// callOpaque: n is the environment with the parameters bound.
func (se *specEnv) callOpaque(pf *PureFn, n *specEnv) specVal {
	boolT := types.Typ[types.Bool]
	var args []Term
	ground := true
	for _, name := range pf.Params {
		for _, t := range n.leafTerms(n.vars[name], "opaque "+pf.Name+": argument "+name) {
			args = append(args, t)
			if strings.Contains(t.S, "!q") {
				ground = false
			}
		}
	}
	for _, r := range pf.Reads {
		args = append(args, n.leafTerms(n.eval(r.Expr), "opaque "+pf.Name+": reads "+r.Src)...)
	}
	var sorts []Sort
	for _, a := range args {
		sorts = append(sorts, a.Sort)
	}
	name := "op." + pf.Name
	se.x.ctx.declareFun(name, sorts, SBool)
	atom := app(SBool, name, args...)
	se.x.opaqueFootprint(pf, se)
	if ground {
		// unfold the definition for this object in this state
		body, ok := n.rval(n.evalRV(pf.Body.Expr)).(Term)
		if !ok {
			se.fail("opaque %s: body is not boolean", pf.Name)
		}
		se.cur.assume(Eq(atom, body))
	}
	return specVal{V: atom, T: boolT}
}

// opaqueFootprint emits, once per function context, the obligation that justifies the
// encoding of an opaque predicate as a function of its footprint: in any two heaps that agree
// on the declared reads, the body has the same truth value.
func (x *exec) opaqueFootprint(pf *PureFn, se *specEnv) {
	if x.ctx.opaqueDone == nil {
		x.ctx.opaqueDone = map[string]bool{}
	}
	if x.ctx.opaqueDone[pf.Name] {
		return
	}
	x.ctx.opaqueDone[pf.Name] = true
	mkState := func() *State {
		x.ctx.nfresh++
		return &State{heap: map[string]Term{}, epoch: x.ctx.nfresh, cells: map[int]Val{}, W: se.st.W, pcSet: map[string]bool{}}
	}
	sA, sB := mkState(), mkState()
	var params []specVal
	for i, name := range pf.Params {
		t := x.ctx.fresh("fp."+name, SInt)
		var pt types.Type
		probe := &specEnv{x: x, pkg: x.e.TPkg[pf.Pkg], vars: map[string]specVal{}, st: sA, cur: sA, nq: se.nq, what: "opaque " + pf.Name}
		if i < len(pf.PTypes) {
			pt = probe.resolveType(pf.PTypes[i])
		}
		if pt == nil {
			panic(specErr{"opaque " + pf.Name + ": cannot resolve parameter type " + pf.PTypes[i]})
		}
		if _, isPtr := pt.(*types.Pointer); isPtr {
			params = append(params, specVal{V: &PtrV{Obj: t, Root: deref(pt)}, T: pt})
		} else {
			params = append(params, specVal{V: t, T: pt})
		}
	}
	eval := func(st *State) ([]Term, Term) {
		n := &specEnv{x: x, pkg: x.e.TPkg[pf.Pkg], vars: map[string]specVal{}, st: st, cur: st, nq: se.nq, what: "opaque " + pf.Name + " (footprint)"}
		for i, name := range pf.Params {
			n.vars[name] = params[i]
		}
		var fp []Term
		for _, r := range pf.Reads {
			fp = append(fp, n.leafTerms(n.eval(r.Expr), "reads "+r.Src)...)
		}
		body, _ := n.rval(n.evalRV(pf.Body.Expr)).(Term)
		return fp, body
	}
	fpA, bA := eval(sA)
	fpB, bB := eval(sB)
	var same []Term
	for i := range fpA {
		same = append(same, Eq(fpA[i], fpB[i]))
	}
	ob := &Obligation{
		Fn: x.ctx.Key, Kind: "footprint", Name: x.ctx.Key + "#footprint[opaque " + pf.Name + "]",
		PC:   append(append(append([]Term(nil), sA.pc...), sB.pc...), same...),
		Goal: Eq(bA, bB),
	}
	x.ctx.Obls = append(x.ctx.Obls, ob)
	x.ctx.note("opaque predicate " + pf.Name + ": a function of its arguments and declared footprint (checked: obligation footprint)")
}

// resolveType resolves a type written in a pure function header ("*segment", "uint64", "log.Log").
func (se *specEnv) resolveType(ts string) types.Type {
	ts = strings.TrimSpace(ts)
	if strings.HasPrefix(ts, "*") {
		if el := se.resolveType(ts[1:]); el != nil {
			return types.NewPointer(el)
		}
		return nil
	}
	if strings.HasPrefix(ts, "[]") {
		if el := se.resolveType(ts[2:]); el != nil {
			return types.NewSlice(el)
		}
		return nil
	}
	if obj := types.Universe.Lookup(ts); obj != nil {
		if tn, ok := obj.(*types.TypeName); ok {
			return tn.Type()
		}
	}
	if i := strings.Index(ts, "."); i > 0 {
		for _, p := range se.x.e.allPackages() {
			if p.Name() == ts[:i] {
				if tn, ok := p.Scope().Lookup(ts[i+1:]).(*types.TypeName); ok {
					return tn.Type()
				}
			}
		}
		return nil
	}
	if se.pkg != nil {
		if tn, ok := se.pkg.Scope().Lookup(ts).(*types.TypeName); ok {
			return tn.Type()
		}
	}
	return nil
}

func (se *specEnv) quant(n *ast.CallExpr, universal, ranged bool) specVal {
	boolT := types.Typ[types.Bool]
	if ranged && len(n.Args) != 4 {
		se.fail("forallr/existsr take (k, lo, hi, body)")
	}
	if len(n.Args) < 2 {
		se.fail("forall/exists take (vars..., body)")
	}
	nv := len(n.Args) - 1
	if ranged {
		nv = 1
	}
	sub := se.sub()
	sub.vars = map[string]specVal{}
	for k, v := range se.vars {
		sub.vars[k] = v
	}
	var qvs []Term
	for i := 0; i < nv; i++ {
		id, ok := n.Args[i].(*ast.Ident)
		if !ok {
			se.fail("quantified variable must be an identifier")
		}
		*se.nq++
		qv := Term{fmt.Sprintf("%s!q%d", id.Name, *se.nq), SInt}
		qvs = append(qvs, qv)
		sub.vars[id.Name] = specVal{V: qv, T: types.Typ[types.Uint64]}
	}
	var body Term
	if ranged {
		lo, hi := se.evalInt(n.Args[1]), se.evalInt(n.Args[2])
		b := sub.evalBoolScoped(n.Args[3], qvs)
		rng := And(Le(lo, qvs[0]), Lt(qvs[0], hi))
		if universal {
			body = Implies(rng, b)
		} else {
			body = And(rng, b)
		}
	} else {
		body = sub.evalBoolScoped(n.Args[nv], qvs)
	}
	if universal {
		return specVal{V: Forall(qvs, body), T: boolT}
	}
	return specVal{V: Exists(qvs, body), T: boolT}
}

// evalBoolScoped evaluates e but keeps type assumptions that mention the bound variable
// out of the path condition (they become part of the body instead).
func (se *specEnv) evalBoolScoped(e ast.Expr, qvs []Term) Term {
	tmpCur := &State{heap: se.cur.heap, epoch: se.cur.epoch, cells: se.cur.cells, W: se.cur.W, pcSet: map[string]bool{}}
	n := se.sub()
	if se.st == se.cur {
		n.st = tmpCur
	}
	n.cur = tmpCur
	b := n.evalBool(e)
	var local []Term
	for _, a := range tmpCur.pc {
		mentions := false
		for _, qv := range qvs {
			if strings.Contains(a.S, qv.S) {
				mentions = true
			}
		}
		if mentions {
			local = append(local, a)
		} else {
			se.cur.assume(a)
		}
	}
	if len(local) > 0 {
		// type invariants of values read under the quantifier hold for every instance:
		// they become a separate universally quantified fact. The allocation bounds ("a
		// reference stored in the heap is below the allocation watermark") hold for the
		// fields of ALLOCATED objects only: an object a callee allocates later lives above
		// the current watermark, and its fields may point to other fresh objects.
		se.cur.assume(Forall(qvs, And(local...)))
	}
	return b
}

// ---- helpers on exec ---------------------------------------------------------

func (x *exec) getHeapIn(st *State, key string, sort Sort) Term {
	return x.getHeap(st, key, sort)
}

func (e *Engine) allPackages() []*types.Package {
	var out []*types.Package
	for _, p := range e.TPkg {
		out = append(out, p)
	}
	return out
}

// nameType finds the static type of a source-level variable of the frame's function.
func (x *exec) nameType(fr *Frame, name string) types.Type {
	for _, p := range fr.fn.Params {
		if p.Name() == name {
			return p.Type()
		}
	}
	for _, b := range fr.fn.Blocks {
		for _, in := range b.Instrs {
			switch v := in.(type) {
			case *ssa.DebugRef:
				if id, ok := v.Expr.(*ast.Ident); ok && id.Name == name && identOf(v) != "" {
					if v.IsAddr {
						return deref(v.X.Type())
					}
					return v.X.Type()
				}
			case *ssa.Phi:
				if v.Comment == name {
					return v.Type()
				}
			}
		}
	}
	return nil
}

// currentIter returns the map iterator of the innermost active range loop of the frame.
func (x *exec) currentIter(st *State, fr *Frame) *MapIterV {
	if fr == nil {
		return nil
	}
	var best *MapIterV
	bestID := -1
	for v, val := range fr.env {
		if _, ok := v.(*ssa.Range); ok {
			if p, ok := val.(*PtrV); ok && p.Cell != nil {
				if it, ok := st.cells[p.Cell.ID].(*MapIterV); ok && p.Cell.ID > bestID {
					best, bestID = it, p.Cell.ID
				}
			}
		}
	}
	return best
}
