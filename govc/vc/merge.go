package vc

import (
	"fmt"
	"sort"
	"strings"

	"golang.org/x/tools/go/ssa"
)

// Loop-head join: every path that reaches a loop header from outside proves the invariant
// (inv-entry) and stops there. After the exploration, all arrivals with the same calling
// context are merged into one generic state (what differs between them is forgotten), the
// loop-modified part is havocked, the invariant is assumed, and the exploration continues
// once from the header. This keeps loop bodies from being re-verified once per pre-loop path.

const mergeThreshold = 6

type pendingGroup struct {
	header *ssa.BasicBlock
	li     *loopInfo
	states []*State
}

func (x *exec) ctxKey(st *State, b *ssa.BasicBlock) string {
	var sb strings.Builder
	for _, f := range st.frames {
		fmt.Fprintf(&sb, "%s@%d/d%d|", f.fn.Name(), f.site, len(f.defers))
		var act []int
		for h := range f.active {
			act = append(act, h.Index)
		}
		sort.Ints(act)
		fmt.Fprintf(&sb, "a%v|", act)
	}
	fmt.Fprintf(&sb, "B%d", b.Index)
	if st.panicking != nil {
		sb.WriteString("|panicking")
	}
	if st.storageFault {
		sb.WriteString("|fault")
	}
	return sb.String()
}

func (x *exec) addPending(st *State, b *ssa.BasicBlock, li *loopInfo) {
	key := x.ctxKey(st, b)
	g := x.pending[key]
	if g == nil {
		g = &pendingGroup{header: b, li: li}
		x.pending[key] = g
		x.pendingOrder = append(x.pendingOrder, key)
	}
	g.states = append(g.states, st)
}

// drainPending processes the loop-head groups until none is left.
func (x *exec) drainPending() {
	for len(x.pendingOrder) > 0 {
		// deepest calling context first, then the earliest header
		best := 0
		for i, k := range x.pendingOrder {
			gi, gb := x.pending[k], x.pending[x.pendingOrder[best]]
			di, db := len(gi.states[0].frames), len(gb.states[0].frames)
			if di > db || (di == db && gi.header.Index < gb.header.Index) {
				best = i
			}
		}
		key := x.pendingOrder[best]
		x.pendingOrder = append(x.pendingOrder[:best], x.pendingOrder[best+1:]...)
		g := x.pending[key]
		delete(x.pending, key)
		// few arrivals: continue from each one separately (no information is lost);
		// many arrivals: merge them into one generic state
		thr := mergeThreshold
		if x.ctx.C != nil && x.ctx.C.MergeAt > 0 {
			thr = x.ctx.C.MergeAt // contract directive `mergeat N`
		}
		if len(g.states) <= thr {
			for _, st := range g.states {
				x.enterLoop(st, g.header, g.li)
			}
			continue
		}
		st := x.mergeStates(g.states)
		x.enterLoop(st, g.header, g.li)
	}
}

func valKey(v Val) string {
	switch c := v.(type) {
	case nil:
		return "nil"
	case Term:
		return "t:" + c.S
	case *StructV:
		var sb strings.Builder
		sb.WriteString("s{")
		for _, f := range c.F {
			sb.WriteString(valKey(f))
			sb.WriteByte(',')
		}
		sb.WriteString("}")
		return sb.String()
	case *SliceV:
		return "sl:" + c.Arr.S + "," + c.Off.S + "," + c.Len.S + "," + c.Cap.S
	case *IfaceV:
		return "if:" + c.Tag.S + "," + c.Pay.S
	case *PtrV:
		s := fmt.Sprintf("p:%s/%v/%v", c.Obj.S, c.Path, c.Elem)
		if c.Cell != nil {
			s += fmt.Sprintf("/c%d", c.Cell.ID)
		}
		if c.Glob != nil {
			s += "/g" + c.Glob.Name()
		}
		if c.Elem {
			s += "/i" + c.Idx.S
		}
		return s
	case TupleV:
		var sb strings.Builder
		sb.WriteString("t(")
		for _, f := range c {
			sb.WriteString(valKey(f))
			sb.WriteByte(',')
		}
		sb.WriteString(")")
		return sb.String()
	case *ClosureV:
		var sb strings.Builder
		sb.WriteString("cl:" + c.Fn.Name() + "(")
		for _, f := range c.Bind {
			sb.WriteString(valKey(f))
			sb.WriteByte(',')
		}
		sb.WriteString(")")
		return sb.String()
	case *FuncV:
		n := ""
		if c.Fn != nil {
			n = c.Fn.Name()
		}
		return "fn:" + n + "/" + c.Var + "/" + c.T.S
	case *ArrayV:
		var sb strings.Builder
		sb.WriteString("a[")
		for _, f := range c.E {
			sb.WriteString(valKey(f))
			sb.WriteByte(',')
		}
		sb.WriteString("]")
		return sb.String()
	case *MapIterV:
		return "it:" + c.Map.S + "/" + c.Visited.S
	}
	return fmt.Sprintf("?%T", v)
}

// canHavoc: values that havocLike can replace by an arbitrary value of the same shape.
func canHavoc(v Val) bool {
	switch c := v.(type) {
	case Term, *StructV, *SliceV, *IfaceV, *MapIterV:
		return true
	case *PtrV:
		return c.Cell == nil && c.Glob == nil && !c.Elem && len(c.Path) == 0
	case TupleV:
		for _, e := range c {
			if !canHavoc(e) {
				return false
			}
		}
		return true
	}
	return false
}

func (x *exec) mergeVals(st *State, vals []Val) (Val, bool) {
	k0 := valKey(vals[0])
	same := true
	for _, v := range vals[1:] {
		if valKey(v) != k0 {
			same = false
			break
		}
	}
	if same {
		return vals[0], true
	}
	for _, v := range vals {
		if !canHavoc(v) {
			return nil, false
		}
	}
	return x.havocLike(st, vals[0]), true
}

func (x *exec) mergeStates(states []*State) *State {
	if len(states) == 1 {
		return states[0]
	}
	base := states[0]
	g := base.clone()
	// path condition: what all arrivals agree on
	g.pc = nil
	g.pcSet = map[string]bool{}
	for _, a := range base.pc {
		all := true
		for _, s := range states[1:] {
			if !s.pcSet[a.S] {
				all = false
				break
			}
		}
		if all {
			g.assume(a)
		}
	}
	// watermark
	sameW := true
	for _, s := range states[1:] {
		if s.W.S != base.W.S {
			sameW = false
		}
	}
	if !sameW {
		nw := x.ctx.fresh("W", SInt)
		for _, s := range states {
			g.assume(Ge(nw, s.W))
		}
		g.W = nw
	}
	// epoch / heap
	sameEpoch := true
	for _, s := range states[1:] {
		if s.epoch != base.epoch {
			sameEpoch = false
		}
	}
	if !sameEpoch {
		x.ctx.nfresh++
		g.epoch = x.ctx.nfresh
		g.heap = map[string]Term{}
	} else {
		keys := map[string]bool{}
		for _, s := range states {
			for k := range s.heap {
				keys[k] = true
			}
		}
		for _, k := range sortedKeys(keys) {
			var first Term
			have := false
			same := true
			for _, s := range states {
				t, ok := s.heap[k]
				if !ok {
					continue
				}
				if !have {
					first, have = t, true
				} else if t.S != first.S {
					same = false
				}
			}
			// arrivals that never touched the key still hold its initial value
			init := x.ctx.heapInit(k, first.Sort, g.epoch)
			for _, s := range states {
				if _, ok := s.heap[k]; !ok && first.S != init.S {
					same = false
				}
			}
			if same {
				g.heap[k] = first
			} else {
				g.heap[k] = x.ctx.fresh("mg."+k, first.Sort)
			}
		}
	}
	// cells
	for id := range g.cells {
		var vals []Val
		ok := true
		for _, s := range states {
			v, has := s.cells[id]
			if !has {
				ok = false
				break
			}
			vals = append(vals, v)
		}
		if !ok {
			delete(g.cells, id)
			continue
		}
		mv, can := x.mergeVals(g, vals)
		if !can {
			delete(g.cells, id)
			continue
		}
		g.cells[id] = mv
	}
	// frames
	for fi, f := range g.frames {
		for v := range f.env {
			var vals []Val
			ok := true
			for _, s := range states {
				val, has := s.frames[fi].env[v]
				if !has {
					ok = false
					break
				}
				vals = append(vals, val)
			}
			if !ok {
				delete(f.env, v)
				continue
			}
			mv, can := x.mergeVals(g, vals)
			if !can {
				delete(f.env, v)
				continue
			}
			if tv, isT := mv.(Term); isT {
				_ = tv
			}
			f.env[v] = mv
		}
		for n := range f.names {
			var vals []Val
			ok := true
			for _, s := range states {
				val, has := s.frames[fi].names[n]
				if !has {
					ok = false
					break
				}
				vals = append(vals, val)
			}
			if !ok {
				delete(f.names, n)
				continue
			}
			// names mirror env values: reuse the merged env value when one matches
			k0 := valKey(vals[0])
			same := true
			for _, v := range vals[1:] {
				if valKey(v) != k0 {
					same = false
				}
			}
			if !same {
				// the values differ: reuse the merged value of an SSA value that mirrors the
				// name in every state (typically the phi of the variable), else merge afresh
				found := false
				for v, mv := range f.env {
					match := true
					for si, s := range states {
						ev, has := s.frames[fi].env[v]
						if !has || valKey(ev) != valKey(vals[si]) {
							match = false
							break
						}
					}
					if match {
						f.names[n] = mv
						found = true
						break
					}
				}
				if !found {
					if mv, can := x.mergeVals(g, vals); can {
						f.names[n] = mv
					} else {
						delete(f.names, n)
					}
				}
			}
		}
		// deferred calls: same call sites (part of the context key); merge their arguments
		for di, d := range f.defers {
			nd := *d
			nd.args = append([]Val(nil), d.args...)
			for ai := range nd.args {
				var vals []Val
				for _, s := range states {
					vals = append(vals, s.frames[fi].defers[di].args[ai])
				}
				mv, can := x.mergeVals(g, vals)
				if !can {
					panic(unsupported("cannot merge deferred call arguments at a loop head"))
				}
				nd.args[ai] = mv
			}
			var fvals []Val
			for _, s := range states {
				fvals = append(fvals, s.frames[fi].defers[di].fnVal)
			}
			if mv, can := x.mergeVals(g, fvals); can {
				nd.fnVal = mv
			} else {
				panic(unsupported("cannot merge deferred closures at a loop head"))
			}
			f.defers[di] = &nd
		}
	}
	// known interface tags: intersection
	for k, id := range g.knownTags {
		for _, s := range states[1:] {
			if s.knownTags[k] != id {
				delete(g.knownTags, k)
				break
			}
		}
	}
	// call sites seen: union (cover check; a merged state stands for all its arrivals)
	g.sites = map[string]bool{}
	for _, s := range states {
		for k := range s.sites {
			g.sites[k] = true
		}
	}
	// path description: common prefix
	n := len(base.path)
	for _, s := range states[1:] {
		if len(s.path) < n {
			n = len(s.path)
		}
		for i := 0; i < n; i++ {
			if s.path[i] != base.path[i] {
				n = i
				break
			}
		}
	}
	g.path = append([]string(nil), base.path[:n]...)
	return g
}
