#!/bin/sh
# builds the verifier from the vendored sources, offline
set -e
cd "$(dirname "$0")/govc"
export GOFLAGS=-mod=vendor GOPROXY=off GOSUMDB=off GOTOOLCHAIN=local
mkdir -p ../bin
go build -o ../bin/govc ./cmd/govc
go build -o ../bin/check ./cmd/check
