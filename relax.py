#!/usr/bin/env python3
# relax.py file.smt2 [term ...] : drop quantified assertions, check-sat, print values of terms
import sys,subprocess,re
f=sys.argv[1]; terms=sys.argv[2:]
out=[]
for l in open(f):
    if l.startswith('(assert') and ('(forall ' in l or '(exists ' in l): continue
    if l.startswith('(get-value') or l.startswith('(check-sat'): continue
    out.append(l)
out.append('(check-sat)\n')
if terms: out.append('(get-value (%s))\n'%' '.join(terms))
open('/tmp/relaxed.smt2','w').write(''.join(out))
print(subprocess.run(['z3-new','-T:20','/tmp/relaxed.smt2'],capture_output=True,text=True).stdout[:3000])
