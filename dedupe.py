#!/usr/bin/env python3
"""dedupe.py file... : removes from later files the contract blocks already defined in earlier files
(keep-first), except keys listed in KEEP_LATER (then the earlier one is removed)."""
import re,sys
KEEP_LATER={'func (transfer).inProgress','func (transfer).targetChosen','func (*transfer).reply'}
files=sys.argv[1:]
def key(t):
    m=re.match(r'//@ (func|view) (.+)$',t)
    if m: return m.group(1)+' '+m.group(2).split(' params(')[0].strip()
    m=re.match(r'//@ pure (\w+(?:\.\w+)?)\(',t)
    if m: return 'pure '+m.group(1)
    m=re.match(r'//@ ghost (field|var|func) ([\w.]+)',t)
    if m: return 'ghost '+m.group(2)
    m=re.match(r'//@ axiom \[([^\]]+)\]',t)
    if m: return 'axiom '+m.group(1)
    return None
def blocks(lines):
    """yield (key or None, [lines])"""
    out=[];cur=None
    for l in lines:
        t=l.strip()
        k=key(t) if t.startswith('//@ ') and not t.startswith('//@   ') else None
        if k is not None:
            cur=[k,[l]]; out.append(cur)
        elif t.startswith('//@   ') and cur is not None and cur[0] is not None:
            cur[1].append(l)
        elif t.startswith('//@') and not t.startswith('//@ ') and cur is not None and cur[0] is not None and t!='//@':
            cur[1].append(l)
        else:
            cur=[None,[l]]; out.append(cur)
    return out
parsed={f:blocks(open(f).read().split('\n')) for f in files}
owner={}
for f in files:
    for b in parsed[f]:
        k=b[0]
        if k is None: continue
        if k in owner and owner[k]!=f:
            if k in KEEP_LATER: owner[k]=f
        elif k not in owner: owner[k]=f
for f in files:
    out=[]
    for k,ls in parsed[f]:
        if k is not None and owner.get(k)!=f:
            out.append('// (duplicate of %s removed: defined in %s)'%(k, owner[k].split('/')[-1]))
            continue
        out+=ls
    open(f,'w').write('\n'.join(out))
print('ok')
