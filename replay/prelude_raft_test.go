package raft

// Prelude of the generated replay tests (injected with -overlay next to the generated
// test; never written to the repository). verifRealize makes an object built from a solver
// model usable by the real code; verifPure_* are the executable twins of ghost predicates.

import (
	"fmt"
	"io/ioutil"
	"os"
	"path/filepath"
	"testing"
)

var verifDirs = map[*storage]string{}

func verifRealize(t *testing.T, obj interface{}) {
	switch o := obj.(type) {
	case *Raft:
		if o.logger == nil {
			o.logger = nopLogger{}
		}
		if o.alerts == nil {
			o.alerts = nopAlerts{}
		}
		if o.timer == nil {
			o.timer = newSafeTimer()
		}
		if o.connPools == nil {
			o.connPools = make(map[uint64]*connPool)
		}
		if o.resolver == nil {
			o.resolver = &resolver{addrs: make(map[uint64]string), logger: o.logger, alerts: o.alerts}
		}
		if o.cnd == nil {
			o.cnd = &candidate{Raft: o}
		}
		o.rtime = newRandTime()
		if o.hbTimeout == 0 {
			o.hbTimeout = 1000000000
		}
	case *storage:
		// a real term file holding (term, votedFor)
		dir, err := ioutil.TempDir("", "verifreplay")
		if err != nil {
			t.Fatal(err)
		}
		t.Cleanup(func() { os.RemoveAll(dir) })
		verifDirs[o] = dir
		v, err := openValue(dir, ".term")
		if err != nil {
			t.Fatal(err)
		}
		if err := v.set(o.term, o.votedFor); err != nil {
			t.Fatal(err)
		}
		o.termVal = v
	case *value:
		dir, err := ioutil.TempDir("", "verifreplay")
		if err != nil {
			t.Fatal(err)
		}
		t.Cleanup(func() { os.RemoveAll(dir) })
		v, err := openValue(dir, ".val")
		if err != nil {
			t.Fatal(err)
		}
		if err := v.set(o.v1, o.v2); err != nil {
			t.Fatal(err)
		}
		o.dir, o.ext = v.dir, v.ext
	case *candidate:
		if o.Raft != nil {
			o.Raft.cnd = o
		}
	case *follower, *leader:
	}
}

// DiskIs(v, a, b): exactly one value file exists and it is named a-b<ext>
func verifPure_DiskIs(v *value, a, b uint64) bool {
	matches, err := filepath.Glob(filepath.Join(v.dir, "*"+v.ext))
	if err != nil || len(matches) != 1 {
		return false
	}
	return filepath.Base(matches[0]) == fmt.Sprintf("%d-%d%s", a, b, v.ext)
}

func verifPure_ValueInv(v *value) bool { return verifPure_DiskIs(v, v.v1, v.v2) }

func verifPure_DurableIs(s *storage, t, v uint64) bool {
	return s.termVal != nil && verifPure_DiskIs(s.termVal, t, v)
}
