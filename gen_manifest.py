#!/usr/bin/env python3
"""Regenerates MANIFEST.json from the table below (kept next to DESIGN.md section 4)."""
import json, subprocess

COMMON_NOTE = ("Trusted base: the govc VC generator and go/ssa (T-gen), z3 4.8.12 / z3 5.1.0 / cvc5 1.0 unsat answers (T-smt), "
  "contracts marked 'trusted' in /repo/verif_contracts.go (file-system, time, standard-library functions), user callbacks do not touch raft state (T-cb), "
  "goroutine bodies / channel operations are not executed (T-go). The cross-node composition of the per-node obligations is assumed, not proved. "
  "Every assumption actually used is listed in the evidence file.")

CLAIMS = {
 "C01": ("proof", "Per-node obligations of election safety proved for all inputs: a vote is granted at most once per term and only after it is durable (onVoteRequest, setVotedFor, value.set), an election bumps the term by one, votes for self durably and needs floor(voters/2)+1 votes (startElection, numVoters with a loop invariant over the map range, quorum), leadership is assumed only on the vote that takes votesNeeded from 1 to 0 and never on an error reply (onVoteResult), and a higher term always leads to follower state. Composition across nodes (quorum intersection) is assumed (PA2, PA3).", "4 C01"),
 "C05": ("proof", "The property is per node and per call: proved for every voter state and request (64-bit wrap-around modelled exactly): granted => (term, votedFor) == (req.term, req.src) in memory and on the ghost disk before the reply is produced; the term never decreases; a recorded vote is not replaced within a term; value.set is atomic on the ghost file system (old pair or new pair, never none/both).", "4 C05"),
 "C11": ("proof", "follower.onTimeout / canStartElection / onTimeoutNowRequest proved: a node campaigns only if it is bootstrapped and a voter of its latest configuration; timeout-now is refused by a non-voter without changing any state.", "4 C11"),
 "C17": ("proof", "Leader-stability clause proved on onVoteRequest: a non-transfer request from a node other than the known leader is refused with leaderKnown and changes neither term, vote nor state. The liveness sentence of C17 is not decidable by contracts (DESIGN section 5).", "4 C17"),
}

TECH = "contract-based deductive verification: weakest-precondition style symbolic execution of go/ssa with callee contracts, obligations discharged by z3/cvc5"

props = [json.loads(l)["id"] for l in open("/verif/properties.jsonl")]
checks = []
for p in props:
    if p not in CLAIMS: continue
    cat, text, ref = CLAIMS[p]
    checks.append({
      "property_id": p,
      "quick_cmd": f"bin/check {p} --tier quick",
      "thorough_cmd": f"bin/check {p} --tier thorough",
      "evidence_file": f"/verif/evidence/{p}.json",
      "replay_cmd_template": "cat {path}",
      "engine": "govc",
      "level_claimed": {"category": cat, "text": text, "design_ref": "DESIGN.md section " + ref},
      "level_note": COMMON_NOTE,
      "technique": TECH,
    })
hooks = subprocess.run(["git","-C","/repo","log","--format=%H %s"],capture_output=True,text=True).stdout.splitlines()
hook_commits = [l.split()[0] for l in hooks if l.split(" ",1)[1].startswith("verif:")]
m = {
 "version": 1,
 "setup_cmd": "./build.sh",
 "hooks": {"guard": "verif", "enable": "the verifier loads /repo with -tags verif (go/packages); the guarded files are comment-only contract files",
           "baseline_off_cmd": "cd /repo && go test -vet=off -count=1 -timeout 25m ./...",
           "source_commits": hook_commits, "add_only": True},
 "engines": [{"name": "govc", "path": "/verif/govc", "serves_properties": sorted(CLAIMS), "kind_free_text": "self-written VC generator for Go (go/ssa symbolic execution against //@ contracts) + SMT back ends z3 4.8.12, z3 5.1.0, cvc5 1.0"}],
 "checks": checks,
 "notes": "See DESIGN.md. Known findings: known_findings.json.",
 "not_applicable": [{"property_id": p, "reason": "not claimed yet: its contracts are still being written (build in progress); see DESIGN.md section 4 for the planned obligations"} for p in props if p not in CLAIMS],
}
json.dump(m, open("/verif/MANIFEST.json","w"), indent=1)
print("claimed:", sorted(CLAIMS))
