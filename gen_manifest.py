#!/usr/bin/env python3
"""Regenerates MANIFEST.json from the table below (kept next to DESIGN.md section 4)."""
import json, subprocess

COMMON_NOTE = ("Trusted base: the govc VC generator and go/ssa (T-gen), z3 4.8.12 / z3 5.1.0 / cvc5 1.0 unsat answers (T-smt), "
  "contracts marked 'trusted' in /repo/verif_contracts.go (file-system, time, standard-library functions), user callbacks do not touch raft state (T-cb), "
  "goroutine bodies / channel operations are not executed (T-go). The cross-node composition of the per-node obligations is assumed, not proved. "
  "Every assumption actually used is listed in the evidence file.")

CLAIMS = {
 "C01": ("proof", "Per-node obligations of election safety proved for all inputs: a vote is granted at most once per term and only after it is durable (onVoteRequest, setVotedFor, value.set), an election bumps the term by one, votes for self durably, allocates a fresh reply channel and needs floor(voters/2)+1 votes (startElection, numVoters with a loop invariant over the map range, quorum), leadership is assumed only on the vote that takes votesNeeded from 1 to 0 and never on an error reply (onVoteResult), and a higher term always leads to follower state (vote, append handlers). Composition across nodes (quorum intersection) is assumed (PA2, PA3).", "4 C01"),
 "C02": ("proof", "Per-node obligations proved: up-to-date rule of onVoteRequest; follower commit rule (canCommit, append handler: commit only <= leader commit, entry present with the request's term, flushed); truncation only at a genuine conflict and never below the matched prefix (loop invariant of the append handler, under PA1); majorityMatchIndex returns a value stored by floor(v/2)+1 voters (unbounded proof with a counting library; sort.Sort trusted). Leader Completeness across nodes is assumed.", "4 C02"),
 "C04": ("proof", "Append handler proved: success implies the consistency check held; every entry of the request is afterwards in the log at its index with its term; the prefix up to prevLogIndex is untouched; appendEntry is only called with index == lastLogIndex+1 (its assert is unreachable). The cross-node induction is assumed.", "4 C04"),
 "C05": ("proof", "The property is per node and per call: proved for every voter state and request (64-bit wrap-around modelled exactly): granted => (term, votedFor) == (req.term, req.src) in memory and on the ghost disk before the reply is produced; the term never decreases; a recorded vote is not replaced within a term; value.set is atomic on the ghost file system (old pair or new pair, never none/both).", "4 C05"),
 "C06": ("proof", "Follower half proved: on every success reply of the append handler everything up to lastLogIndex is flushed (the deferred closure runs on all exits), and the commit index never passes the flushed index. Voter counting: see C02 (majorityMatchIndex). Leader flush-before-advance and the cross-node count are not yet under contract (listed).", "4 C06"),
 "C07": ("proof", "Decided part proved on the leader: storeEntry handles the tasks of a batch in submission order (rejected with InProgressError iff a transfer is in progress or the leader is no voter; otherwise index == lastLogIndex+1 at that moment and term == the leader's term; log entries are appended in that order, reads and barriers are queued but not appended); applyCommitted releases exactly the queue prefix with index <= commitIndex plus non-log entries at commitIndex+1; release replies every queued entry and waiter exactly once; onApply replies after Update (C03). Linearizability across leader changes, real-time order and the non-leader arm inlined in stateLoop are outside per-call contracts (DESIGN section 5).", "4 C07"),
 "C08": ("proof", "Follower side proved: adopting a configuration entry sets Latest to it and Committed to its predecessor, truncation at or below Latest reverts to Committed, commit promotes Latest; Latest is always the newest configuration entry of the log (loop invariant CfgInLog of the append handler, under PA1). Leader-side rules (one voter delta, commit-ready guard) are being added.", "4 C08"),
 "C11": ("proof", "follower.onTimeout / canStartElection / onTimeoutNowRequest proved: a node campaigns only if it is bootstrapped and a voter of its latest configuration; timeout-now is refused by a non-voter without changing any state; a leader that commits a configuration in which it is no voter steps down; ErrNodeRemoved shutdown only after that configuration is committed; non-voters are never counted by majorityMatchIndex.", "4 C11"),
 "C13": ("proof", "Segment level proved byte-exactly against the representation invariant SegInv (offset table monotone, size == last offset, data below the table): at/offset/setOffset/lastIndex/available/get/append/removeGTE. Log level proved for the read-only operations over a ghost segment set (PrevIndex, LastIndex, Count, Contains, segment, Get, ViewAt). CommitN is a bounded stand-in (at most 2 segments visited). Append roll-over, RemoveLTE/GTE, Reset, GetN, Open are not yet under contract.", "4 C13"),
 "C14": ("proof", "Power-loss model (ghost durable image per file, T-mmap): crash invariants proved at every program point of segment.append, sync and removeGTE: whichever header value reaches the disk, everything it exposes is durable and equal to memory; sync writes the header only after the data flush; after a completed sync/removeGTE the durable header equals the in-memory count. CommitN: bounded stand-in. Recovery (openSegments) not yet under contract.", "4 C14"),
 "C16": ("proof", "Proved: validateTransfer returns each error iff its condition; onTransfer records the leader's term and arms the timer; tryTransfer starts a timeout-now request only for a target other than itself that is a voter of the latest configuration, reachable and with matchIndex == lastLogIndex; storeEntry rejects client entries while a transfer is in progress; transfer.reply stops both timers and clears the response channel; leader.release answers the transfer with success only if the term is higher than the one recorded at the start. That the cluster keeps/elects a leader after a failed transfer is liveness (DESIGN section 5).", "4 C16"),
 "C17": ("proof", "Leader-stability clause proved on onVoteRequest (a non-transfer request from a node other than the known leader is refused and changes nothing) and on the append handler (a stale-term request changes nothing). The liveness sentence of C17 is not decidable by contracts (DESIGN section 5).", "4 C17"),
 "C19": ("proof", "Ordering clauses proved as postconditions of the vote, append and timeout-now handlers and the config/commit helpers: term and commit index never decrease; snapshot index <= commit index <= last log index; log well-formedness (LogWF) preserved. Other handlers are being added.", "4 C19"),
 "C03": ("proof", "onApply proved with loop invariants: the FSM index advances by exactly one per applied entry, updates are passed to the user FSM in index order without gaps and at most once, non-update entries are skipped, the three internal asserts are unreachable given the channel invariant on fsmApply messages (stated as named preconditions PA-ch.*); onRestoreReq sets the applied index/term to the restored snapshot's label or leaves them unchanged on failure. Agreement across nodes composes C02+C04 (assumed); FIFO order between the raft and FSM goroutines is T-go.", "4 C03"),
 "C09": ("proof", "Proved: a snapshot reply carries exactly the applied index/term (no uncommitted update); onSnapshotTaken compacts only up to the new snapshot index and, on a leader, only up to the match index of every replication; retained snapshots are only removed when older and unpinned; open() validates the data size against the label. Races between goroutines on log memory are outside per-call contracts.", "4 C09"),
 "C10": ("proof", "Crash-Hoare obligations on the ghost file system at every program point of value.set / setTerm / setVotedFor (old or new pair, exactly one file), snapshots.new / done / applyRetain (a label is published only after its data file is complete; the latest snapshot is never removed) and, under power loss, of the segment operations (C14). Recovery functions openStorage/openValue/Open are not yet under contract; the install-snapshot window (D9) is not yet checked.", "4 C10"),
 "C12": ("proof", "Proved: the index and term of a snapshot label are the values the FSM produced together with the state; done() writes exactly the label given to new(); open()/openSnapshots read back the published label. The membership clause fails on the current code (known finding D10).", "4 C12"),
 "C15": ("proof", "Decided part: for every function under contract (all properties) the verifier proves that no assertion, explicit panic (other than a storage-error OpError), nil dereference, index/slice bound violation, failed type assertion, nil-map write or division by zero is reachable under the function's precondition, and that every callee precondition holds at each call site. Data races, deadlock, shutdown termination and task-completion-exactly-once across goroutines are outside per-call contracts (DESIGN section 5).", "4 C15"),
 "C18": ("proof", "Byte-exact contracts over ghost byte streams: every primitive (uint64/32/8, bool, bytes, string), log entries, the fixed-width requests (req, vote, append, identity), responses (plain and append) are proved to write exactly their layout at the current stream position, to read back the same fields from the same positions (round trip = encoder and decoder contracts share the layout predicate), to consume exactly the bytes produced, and to return an error exactly when the stream ends early. Config/Node/Info/task-response encodings, installSnap requests and the value-file name parsing are not yet under contract (listed).", "4 C18"),
 "C20": ("proof", "Proved: the identity arm of replyRPC answers success iff cluster and node id both match and runs no handler; getConn returns a connection only from the pool or after an identity handshake that answered success for (pool.cid, pool.nid) (pool invariant over the conns slice; network exchange trusted), getConnPool builds pools with (r.cid, nid); SetIdentity never reports success for a mismatching identity and never overwrites a set identity. Listener-side enforcement and lock-file exclusivity are assumptions (T-fs).", "4 C20"),
}

TECH = "contract-based deductive verification: weakest-precondition style symbolic execution of go/ssa with callee contracts, obligations discharged by z3/cvc5"

props = [json.loads(l)["id"] for l in open("/verif/properties.jsonl")]
checks = []
for p in props:
    if p not in CLAIMS: continue
    cat, text, ref = CLAIMS[p]
    checks.append({
      "property_id": p,
      "quick_cmd": f"bin/check {p} --tier quick",
      "thorough_cmd": f"bin/check {p} --tier thorough",
      "evidence_file": f"/verif/evidence/{p}.json",
      "replay_cmd_template": "cat {path}",
      "engine": "govc",
      "level_claimed": {"category": cat, "text": text, "design_ref": "DESIGN.md section " + ref},
      "level_note": COMMON_NOTE,
      "technique": TECH,
    })
hooks = subprocess.run(["git","-C","/repo","log","--format=%H %s"],capture_output=True,text=True).stdout.splitlines()
hook_commits = [l.split()[0] for l in hooks if l.split(" ",1)[1].startswith("verif:")]
m = {
 "version": 1,
 "setup_cmd": "./build.sh",
 "hooks": {"guard": "verif", "enable": "the verifier loads /repo with -tags verif (go/packages); the guarded files are comment-only contract files",
           "baseline_off_cmd": "cd /repo && go test -vet=off -count=1 -timeout 25m ./...",
           "source_commits": hook_commits, "add_only": True},
 "engines": [{"name": "govc", "path": "/verif/govc", "serves_properties": sorted(CLAIMS), "kind_free_text": "self-written VC generator for Go (go/ssa symbolic execution against //@ contracts) + SMT back ends z3 4.8.12, z3 5.1.0, cvc5 1.0"}],
 "checks": checks,
 "notes": "See DESIGN.md. Known findings: known_findings.json.",
 "not_applicable": [{"property_id": p, "reason": "not claimed yet: its contracts are still being written (build in progress); see DESIGN.md section 4 for the planned obligations"} for p in props if p not in CLAIMS],
}
json.dump(m, open("/verif/MANIFEST.json","w"), indent=1)
print("claimed:", sorted(CLAIMS))
