#!/bin/bash
# usage: seedcheck.sh <worktree> <seed-id> <property> : confirms a seeded change and files it under /verif/seeded/<seed-id>
wt=$1; id=$2; prop=$3
export GOFLAGS=-mod=mod GOPROXY=off GOSUMDB=off GOTOOLCHAIN=local
out=/verif/seeded/$id; mkdir -p $out
cd $wt || exit 1
demo=$(git status --porcelain | grep '^??' | awk '{print $2}' | grep '_test.go$' | head -1)
pkg=./$(dirname $demo)
git diff -- . ':(exclude)verif_contracts*.go' ':(exclude)log/verif_contracts*.go' > $out/patch.diff
cp $demo $out/$(basename $demo)
cp SEEDED.md $out/SEEDED.md 2>/dev/null
echo "demo=$demo pkg=$pkg" > $out/confirm.log
# 1. demo with change must fail
go test -vet=off -count=1 -timeout 10m -run 'TestSeededDemo' $pkg >> $out/confirm.log 2>&1; with=$?
# 2. demo without change must pass
git stash -q -- $(git diff --name-only -- . ':(exclude)verif_contracts*.go' ':(exclude)log/verif_contracts*.go')
go test -vet=off -count=1 -timeout 10m -run 'TestSeededDemo' $pkg >> $out/confirm.log 2>&1; without=$?
git stash pop -q
# 3. full suite with change (demo excluded) must pass
mv $demo /tmp/$id.demo.keep
go test -vet=off -count=1 -timeout 25m ./... >> $out/confirm.log 2>&1; suite=$?
mv /tmp/$id.demo.keep $demo
echo "RESULT demo_with_change_exit=$with demo_without_change_exit=$without suite_with_change_exit=$suite" | tee -a $out/confirm.log
python3 - <<PY
import json
json.dump({"id":"$id","property":"$prop","demo_file":"$(basename $demo)","demo_package":"$pkg",
 "confirmed":{"demo_with_change_fails":$with!=0,"demo_without_change_passes":$without==0,"suite_with_change_passes":$suite==0},
 "ran":["go test -vet=off -count=1 -run TestSeededDemo $pkg (with change)","same with the change stashed","go test -vet=off -count=1 -timeout 25m ./... (with change, demo file moved away)"],
 "needs":"see SEEDED.md"}, open("$out/meta.json","w"), indent=1)
PY
