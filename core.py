#!/usr/bin/env python3
"""core.py file.smt2 : prints an unsat core of the query's assertions (debug aid)."""
import re,subprocess,sys
src=open(sys.argv[1]).read()
cmds=[];depth=0;start=None
for i,ch in enumerate(src):
    if ch=='(':
        if depth==0: start=i
        depth+=1
    elif ch==')':
        depth-=1
        if depth==0: cmds.append(src[start:i+1])
out=['(set-option :produce-unsat-cores true)'];names={};n=0
def split_top(body):
    # body = "(op a b c)" -> list of top-level args
    inner=body[body.index(' ')+1:-1]; parts=[];d=0;st=None
    for i,ch in enumerate(inner):
        if ch=='(':
            if d==0 and st is None: st=i
            d+=1
        elif ch==')':
            d-=1
            if d==0: parts.append(inner[st:i+1]); st=None
        elif d==0 and not ch.isspace() and st is None:
            st=i
        elif d==0 and ch.isspace() and st is not None:
            parts.append(inner[st:i]); st=None
    if st is not None: parts.append(inner[st:])
    return parts
cmds2=[]
for c in cmds:
    if c.startswith('(assert'):
        body=c[len('(assert'):-1].strip()
        if re.match(r'\(or\s',body):
            body=split_top(body)[0]   # first disjunct only
        if re.match(r'\(and\s',body):
            for part in split_top(body): cmds2.append('(assert '+part+')')
            continue
        cmds2.append('(assert '+body+')')
    else: cmds2.append(c)
cmds=cmds2
for c in cmds:
    if c.startswith('(assert'):
        n+=1; body=c[len('(assert'):-1].strip()
        names['a%d'%n]=body
        out.append('(assert (! %s :named a%d))'%(body,n))
    elif c.startswith('(check-sat'): out.append('(check-sat)\n(get-unsat-core)')
    elif c.startswith('(get-value') or c.startswith('(get-model'): pass
    else: out.append(c)
open('/tmp/core.smt2','w').write('\n'.join(out))
r=subprocess.run([sys.argv[2] if len(sys.argv)>2 else 'z3-new','-T:30','/tmp/core.smt2'],capture_output=True,text=True)
print(r.stdout[:300])
for c in re.findall(r'a\d+',r.stdout.split('\n',1)[1] if '\n' in r.stdout else ''):
    print(c, re.sub(r'\s+',' ',names[c])[:900]); print()
