#!/bin/sh
# usage: mutwt.sh <repo-copy> <file> <old> <new> <govc args...> : mutation test inside a private copy of the repo
wt=$1; f=$2; old=$3; new=$4; shift 4
cp "$wt/$f" "$wt/$f.mutbak"
python3 - "$wt/$f" "$old" "$new" <<'PY'
import sys
f,old,new=sys.argv[1:4]
s=open(f).read()
assert old in s, "pattern not found"
open(f,'w').write(s.replace(old,new,1))
PY
rc=$?
if [ $rc -eq 0 ]; then /verif/bin/govc -repo "$wt" "$@" 2>&1 | grep -v "note:" | cut -c1-260; fi
mv "$wt/$f.mutbak" "$wt/$f"
