#!/bin/sh
# usage: mut.sh <file> <python-old> <python-new> <govc args...>   (applies a textual mutation to /repo, runs govc, reverts)
f=$1; old=$2; new=$3; shift 3
python3 - "$f" "$old" "$new" <<'PY'
import sys
f,old,new=sys.argv[1:4]
s=open('/repo/'+f).read()
assert old in s, "pattern not found"
open('/repo/'+f,'w').write(s.replace(old,new,1))
PY
[ $? -eq 0 ] || exit 1
/verif/bin/govc "$@" 2>&1 | grep -v "note:" | cut -c1-260
git -C /repo checkout -- "$f"
